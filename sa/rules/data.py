"""Data-side rules: R36 UNITS, R37 MASKTABLE, R33c COMPRESS, R35 REGRID, R15 FIELDS, R16 GETINFO."""
from __future__ import annotations

import ast
import itertools

from ..absbase import Vec,  FinamInterp, Logger, Order, Ref
from ..astq import U, call_name, calls, fn_walk, self_attr, walk
from ..cfg import CFG
from ..interp import Closure, Obj, Raised, Sym, Undecided
from ..loader import AnalysisError, body_of

UNITS_PY = "src/finam/data/tools/units.py"
MASK_PY = "src/finam/data/tools/mask.py"


# =========================================================================== R36
class _UnitsInterp(FinamInterp):
    """pint is replaced by a scripted relation between unit atoms."""

    def __init__(self, repo, compatible, equivalent):
        super().__init__(repo)
        self.compatible, self.equivalent = compatible, equivalent
        self.conversions = 0
        self.close_args = []

    @property
    def cache(self):
        """Entries of the module-level memo(s) of the units module, wherever they are kept (a dict, or a dict inside a
        module-level helper object): role discovery, no name."""
        out = {}
        for v in self.__dict__.get("_module_values", {}).values():
            for d in ([v] if isinstance(v, dict) else [x for x in v.fields.values() if isinstance(x, dict)] if isinstance(v, Obj) else []):
                for k, val in d.items():
                    out[k] = val
        return out

    def ext_isinstance(self, v, name, node):
        short = name.split(".")[-1]
        if short == "Unit":
            return isinstance(v, Sym) and v.op == "unit"
        if short == "Quantity":
            return isinstance(v, Sym) and v.op == "qty"
        return super().ext_isinstance(v, name, node)

    def decide(self, cond, node):
        if isinstance(cond, Sym) and cond.op == "unit":
            return True
        return super().decide(cond, node)

    def call_hook(self, fv, args, kwargs, node, mod):
        if isinstance(fv, Sym) and fv.op == "arrmethod":
            # a cast / rounding of the numbers is a change of the numbers (`copy` is not)
            return fv.args[0] if fv.args[1] == "copy" else Sym(fv.args[1], fv.args[0], *args)
        if isinstance(fv, Closure) and getattr(fv.func, "name", "") in ("check_quantified",):
            return None
        if isinstance(fv, Sym) and fv.op == "unitmethod":
            return self.compatible
        if isinstance(fv, Sym) and fv.op == "to_of":
            self.conversions += 1
            src, dst = fv.args[0], args[0]
            su = src.args[1] if isinstance(src, Sym) and src.op == "qty" else src
            if su == dst:
                return src
            if not self.compatible:
                self.on_raise(Sym("exc", "DimensionalityError"), node)
            return Sym("qty", Sym("conv", src.args[0] if isinstance(src, Sym) and src.op == "qty" else 1.0, su, dst), dst)
        return super().call_hook(fv, args, kwargs, node, mod)

    def handler_matches(self, type_expr, raised, env, mod):
        return raised.name in U(type_expr)

    def get_attr(self, obj, attr, node, mod):
        if isinstance(obj, Sym) and obj.op == "unit" and attr in ("dimensionless", "unitless"):
            return bool(getattr(self, "dimensionless", False))  # (percent, ppm, radian, "1": dimensionless units with different factors)
        if isinstance(obj, Sym) and obj.op == "unit" and attr in ("is_compatible_with", "dimensionality"):
            return Sym("unitmethod", obj, attr) if attr == "is_compatible_with" else Sym("base", obj)
        if isinstance(obj, Sym) and obj.op == "qty":
            if attr == "to":
                return Sym("to_of", obj)
            if attr == "magnitude":
                return obj.args[0]
            if attr == "units":
                return obj.args[1]
        if isinstance(obj, Sym) and obj.op in ("mag", "conv", "astype") and attr == "dtype":
            return Sym("dtype", obj)
        if isinstance(obj, Sym) and obj.op in ("mag", "conv", "astype") and attr in ("astype", "round", "copy"):
            return Sym("arrmethod", obj, attr)
        return super().get_attr(obj, attr, node, mod)

    def builtin(self, name, args, kwargs, node):
        if name == "getattr" and len(args) >= 2 and isinstance(args[0], Sym) and args[0].op in ("mag", "conv", "astype") and isinstance(args[1], str):
            return self.get_attr(args[0], args[1], node, None)
        return super().builtin(name, args, kwargs, node)

    def binop(self, op, left, right, node):
        if isinstance(op, ast.Mult) and left == 1.0 and isinstance(right, Sym) and right.op == "unit":
            return Sym("qty", 1.0, right)
        return super().binop(op, left, right, node)

    def ext_call(self, name, args, kwargs, node):
        if name.endswith("isclose") or name.endswith("allclose"):
            self.close_args.append(tuple(args[:2]))
            if args and args[0] == 1.0 and args[1] == 1.0:
                return True
            return self.equivalent
        if name.endswith("get_base_units"):
            u = args[0]
            return (Sym("factor", u), Sym("base", u))
        if name.endswith("Quantity"):
            return Sym("qty", args[0], args[1])
        return super().ext_call(name, args, kwargs, node)

    def sym_compare(self, op, left, right, node):
        if isinstance(left, Sym) and isinstance(right, Sym) and left.op == right.op == "dtype" and isinstance(op, (ast.Eq, ast.NotEq)):
            # the data type of converted numbers differs from the original whenever integers are converted: that outcome is explored
            same = left == right
            return same if isinstance(op, ast.Eq) else not same
        if isinstance(left, Sym) and isinstance(right, Sym) and left.op == right.op == "base" and isinstance(op, (ast.Eq, ast.NotEq)):
            return self.compatible if isinstance(op, ast.Eq) else not self.compatible
        if isinstance(left, Sym) and isinstance(right, Sym) and left.op == "unit" and right.op == "unit":
            eq = left == right
            return eq if isinstance(op, ast.Eq) else (not eq) if isinstance(op, ast.NotEq) else super().sym_compare(op, left, right, node)
        return super().sym_compare(op, left, right, node)


class _PrepInterp(_UnitsInterp):
    def call_hook(self, fv, args, kwargs, node, mod):
        if isinstance(fv, Closure):
            n = getattr(fv.func, "name", "")
            if n == "is_quantified":
                return isinstance(args[0], Sym) and args[0].op == "qty"
            if n == "_check_input_shape":
                return args[0]
        if isinstance(fv, Sym) and fv.op == "copy_of" and not args:
            return fv.args[0]  # (a copy has the same units and numbers: the units table abstracts ownership away)
        return super().call_hook(fv, args, kwargs, node, mod)

    def get_attr(self, obj, attr, node, mod):
        if isinstance(obj, Obj) and obj.label == "info" and attr in obj.fields:
            return obj.fields[attr]
        if isinstance(obj, Sym) and obj.op == "qty" and attr == "copy":
            return Sym("copy_of", obj)
        return super().get_attr(obj, attr, node, mod)

    def ext_call(self, name, args, kwargs, node):
        short = name.split(".")[-1]
        if short == "isarray":
            return isinstance(args[0], Sym) and args[0].op == "masked"
        if short == "ndim":
            return 2
        if short == "shape":
            return Sym("shape_of", args[0])
        if short in ("copy", "deepcopy") and len(args) == 1:
            return args[0]
        if short in ("ravel", "asarray", "broadcast_to"):
            # which mask entries are applied is R37p's question; the units table abstracts the mask away
            return args[0]
        if name.endswith("ma.array"):
            return Sym("masked", kwargs.get("data", args[0] if args else None))
        return super().ext_call(name, args, kwargs, node)

    def sym_compare(self, op, left, right, node):
        if isinstance(left, Sym) and isinstance(right, Sym) and left.op == right.op == "shape_of":
            if left == right:
                return isinstance(op, ast.Eq)
            r = self.decide(Sym("same_shape", left, right), node)
            return r if isinstance(op, ast.Eq) else not r
        return super().sym_compare(op, left, right, node)


def _uncopied(v):
    """The same term without copy markers (`x.copy()`, `np.copy(x)`, `copy.copy(x)`): a copy has the same units and numbers."""
    if isinstance(v, tuple):
        return tuple(_uncopied(x) for x in v)
    if isinstance(v, Sym):
        if v.op in ("copy", "copied") and v.args:
            return _uncopied(v.args[0])
        return Sym(v.op, *[_uncopied(x) for x in v.args])
    return v


def r36_units(repo, sink):
    cu = repo.func(UNITS_PY, "compatible_units")
    eu = repo.func(UNITS_PY, "equivalent_units")
    tu = repo.func(UNITS_PY, "to_units")
    a, b = Sym("unit", "a"), Sym("unit", "b")
    worst = None
    # equivalence is decided by converting the value 1 from one unit into the other and comparing the result with 1
    # (a comparison of scale factors would call degC and K equivalent): observed in an abstract run
    probe = _UnitsInterp(repo, True, True)
    try:
        probe.run(eu, [a, b])
        converted = [c for c in probe.close_args if any(isinstance(x, Sym) and x.op == "conv" and x.args[0] == 1.0 and x.args[1:] == (a, b) for x in c)]
        by_conv = probe.conversions >= 1 and bool(converted)
        sink.check(by_conv, "R36", "units:equivalence-by-conversion", eu,
                   ok="pair is classified by converting 1 between the units",
                   bad="equivalence / compatibility of a unit pair is no longer decided by converting 1 from one unit to the other and "
                       f"comparing with 1 (conversions: {probe.conversions}, closeness tested on {probe.close_args!r}): factor-only comparisons treat "
                       "offset units (degC / K) as equivalent, so data is relabelled instead of converted")
        if not by_conv:
            return
    except (Raised, Undecided, AnalysisError) as exc:
        sink.unknown("R36", "units:equivalence-by-conversion", eu, f"equivalent_units outside vocabulary: {exc}")
        return
    for compatible, equivalent, dimless in ((True, True, False), (True, False, False), (False, False, False), (True, False, True), (True, True, True)):
        it = _UnitsInterp(repo, compatible, equivalent)
        it.dimensionless = dimless  # both units dimensionless (percent vs 1: compatible, not equivalent)
        try:
            # query order must not matter: equivalent first, then compatible, then again (cache hits)
            seqs = [(eu, equivalent), (cu, compatible), (eu, equivalent), (cu, compatible)]
            for f, want in seqs:
                got = it.run(f, [a, b])
                if got is not want and got != want:
                    worst = worst or (f"dimension-equal={compatible}, factor-one={equivalent}{', both units dimensionless (percent and 1)' if dimless else ''}: {f.name} answers {got!r}, expected {want} "
                                      f"(after {it.conversions} conversion(s); answers must not depend on earlier queries)")
            if it.conversions != 1:
                worst = worst or f"pair converted {it.conversions} times: the memo is not used / keyed wrongly"
            # the reversed pair is a different key
            it2 = _UnitsInterp(repo, compatible, equivalent)
            it2.dimensionless = dimless
            it2.run(cu, [a, b])
            if (b, a) in it2.cache and (a, b) not in it2.cache:
                worst = worst or "memo is keyed by the reversed pair"
            if list(it2.cache.keys()) != [(a, b)]:
                worst = worst or f"memo keys after one query: {list(it2.cache.keys())!r}"
        except Raised as r:
            worst = worst or f"raises {r.name}"
        except Undecided as u:
            raise AnalysisError(f"units: undecidable {u}") from u
    sink.check(worst is None, "R36", "units:compat-equiv-table", cu,
               ok="compatible iff the conversion does not raise DimensionalityError, equivalent iff converting 1 gives 1; history independent",
               bad=worst or "")
    # to_units
    worst = None
    x = Sym("qty", Sym("mag"), a)
    for compatible, equivalent, check_eq in itertools.product((True, False), (True, False), (True, False)):
        if equivalent and not compatible:
            continue
        it = _UnitsInterp(repo, compatible, equivalent)
        try:
            got = it.run(tu, [x, b], {"check_equivalent": check_eq})
        except Raised as r:
            got = ("raise", r.name)
        if not compatible:
            if got != ("raise", "DimensionalityError"):
                worst = worst or f"incompatible units: to_units gives {got!r} instead of refusing"
        elif equivalent and check_eq:
            if got != Sym("qty", Sym("mag"), b):
                worst = worst or f"equivalent units must be relabelled without changing numbers, got {got!r}"
        else:
            if not (isinstance(got, Sym) and got.op == "qty" and got.args[1] == b and isinstance(got.args[0], Sym) and got.args[0].op == "conv"):
                worst = worst or f"non-equivalent units must be converted, got {got!r}"
    it = _UnitsInterp(repo, True, True)
    same = it.run(tu, [x, a], {"check_equivalent": True})
    if same != x:
        worst = worst or f"identical units must pass through unchanged, got {same!r}"
    sink.check(worst is None, "R36", "units:to_units", tu, ok="relabel iff equivalent (and requested), convert otherwise, refuse incompatible", bad=worst or "")
    # prepare: published data with foreign units is converted (masked or not), equivalent units pass
    pf = repo.func("src/finam/data/tools/core.py", "prepare")
    worst = None
    for compatible, equivalent, masked, forced in itertools.product((True, False), (True, False), (True, False), (False, True)):
        if equivalent and not compatible:
            continue
        it = _PrepInterp(repo, compatible, equivalent)
        info = Obj(label="info", fields={"units": b, "is_masked": masked, "mask": Sym("M"), "fill_value": None, "grid": None})
        kw = {"report_conversion": True}
        if forced:
            kw["force_copy"] = True  # (a requested copy changes who owns the memory, never units or numbers)
        outs = it.run_all(lambda it=it, info=info, kw=kw: _uncopied(it.run(pf, [Sym("qty", Sym("mag"), a), info], dict(kw))))
        X = Sym("masked", Sym("mag")) if masked else Sym("mag")
        if not compatible:
            want = ("raise", "FinamDataError")
        elif equivalent:
            want = (Sym("qty", X, a), None)
        else:
            want = (Sym("qty", Sym("conv", X, a, b), b), (a, b))
        for _decs, (kind, val) in outs:
            got = ("raise", val.name) if kind == "raise" else val
            if got != want:
                worst = worst or (f"quantity in unit a published into an output declared in unit b (dimension-equal={compatible}, factor-one={equivalent}, "
                                  f"mask in the info={masked}{', force_copy=True' if forced else ''}): prepare yields {got!r}, expected {want!r}")
    sink.check(worst is None, "R36", "units:prepare-table", pf,
               ok="prepare converts compatible non-equivalent units (also when it wraps the data into a masked array), refuses incompatible ones",
               bad=worst or "")
    # check(): refuses data whose units are incompatible with the info, accepts compatible ones
    cf = repo.func("src/finam/data/tools/core.py", "check")
    worst = None
    for compatible, has_time, rank in itertools.product((True, False), (True, False), (2, 0)):
        it = _CheckInterp(repo, compatible, False, has_time)
        it.rank = rank  # (rank 0: grid-less scalar payload, nothing behind the time axis)
        info = Obj(label="info", fields={"units": b, "is_masked": False, "mask": None, "fill_value": None, "grid": None})
        try:
            got = it.run(cf, [Sym("qty", Sym("mag"), a), info])
        except Raised as r:
            got = ("raise", r.name)
        want = None if (compatible and has_time) else ("raise", "FinamDataError")
        if got != want:
            worst = worst or (f"check({'scalar ' if rank == 0 else ''}data in unit a, info in unit b) with dimension-equal={compatible}, time axis present={has_time}: "
                              f"{got!r}, expected {want!r}")
    sink.check(worst is None, "R36", "units:refusal:check", cf, ok="check refuses incompatible units and a missing time axis with FinamDataError, accepts otherwise", bad=worst or "")


class _CheckInterp(_PrepInterp):
    def __init__(self, repo, compatible, equivalent, has_time):
        super().__init__(repo, compatible, equivalent)
        self.has_time = has_time

    def call_hook(self, fv, args, kwargs, node, mod):
        if isinstance(fv, Closure):
            n = getattr(fv.func, "name", "")
            if n in ("check_quantified", "_check_shape"):
                return None
            if n == "has_time_axis":
                return self.has_time
        return super().call_hook(fv, args, kwargs, node, mod)

    def get_attr(self, obj, attr, node, mod):
        if isinstance(obj, Sym) and obj.op == "qty" and attr == "shape":
            return (Sym("t"), Sym("n0"), Sym("n1"))[:1 + getattr(self, "rank", 2)]
        if isinstance(obj, Sym) and obj.op == "qty" and attr == "units":
            return obj.args[1]
        return super().get_attr(obj, attr, node, mod)

    def sym_compare(self, op, left, right, node):
        if isinstance(left, Sym) and isinstance(right, Sym) and left.op == right.op == "unit" and isinstance(op, (ast.Eq, ast.NotEq)):
            return (left == right) == isinstance(op, ast.Eq)  # (the two unit labels of the table are different labels)
        return super().sym_compare(op, left, right, node)


# =========================================================================== R37
MFLEX, MNONE = Sym("enum", "Mask", "FLEX"), Sym("enum", "Mask", "NONE")
NOMASK = Sym("nomask")


def _arr(name, has_true=True):
    return Sym("maskarr", name, has_true)


class _MaskInterp(FinamInterp):
    def global_name(self, name, mod):
        return super().global_name(name, mod)

    def attr(self, base, attr, node, mod):
        from ..loader import Class
        if isinstance(base, Class) and base.name == "Mask" and attr in ("FLEX", "NONE"):
            return Sym("enum", "Mask", attr)
        return super().attr(base, attr, node, mod)

    def get_attr(self, obj, attr, node, mod):
        if isinstance(obj, Sym) and obj.op == "ext" and obj.args[0] in ("np.ma", "numpy.ma") and attr == "nomask":
            return NOMASK
        return super().get_attr(obj, attr, node, mod)

    def builtin(self, name, args, kwargs, node):
        if name == "list" and args and hasattr(args[0], "name") and getattr(args[0], "name", "") == "Mask":
            return [MFLEX, MNONE]
        return super().builtin(name, args, kwargs, node)

    def iterate(self, v, node):
        from ..loader import Class
        if isinstance(v, Class) and v.name == "Mask":
            return [MFLEX, MNONE]
        return super().iterate(v, node)

    def compare(self, op, left, right, node):
        if isinstance(op, (ast.Is, ast.IsNot)):
            same = left is right or (isinstance(left, Sym) and isinstance(right, Sym) and left == right) or (left is None and right is None)
            return same if isinstance(op, ast.Is) else not same
        if isinstance(op, (ast.Eq, ast.NotEq)) and isinstance(left, Sym) and isinstance(right, Sym) and \
                (left.op == "enum" or right.op == "enum"):
            eq = left == right
            return eq if isinstance(op, ast.Eq) else not eq
        return super().compare(op, left, right, node)

    def ext_call(self, name, args, kwargs, node):
        short = name.split(".")[-1]
        if short == "is_mask":
            return isinstance(args[0], Sym) and args[0].op in ("maskarr", "nomask")
        if short == "any":
            a = args[0]
            if isinstance(a, Sym) and a.op == "maskarr":
                return a.args[1]
            if isinstance(a, Sym) and a.op == "nomask":
                return False  # numpy: nomask is the scalar False
            if isinstance(a, bool):
                return a
        if short == "ndim":
            return 2
        if short == "shape":
            return (Sym("n0"), Sym("n1"))
        if short == "all":
            a = args[0]
            if isinstance(a, bool):
                return a
            if isinstance(a, (list, tuple)):
                return all(a)
        return super().ext_call(name, args, kwargs, node)

    def sym_compare(self, op, left, right, node):
        if isinstance(left, Sym) and isinstance(right, Sym) and left.op == "maskarr" and right.op == "maskarr":
            eq = left.args[0] == right.args[0]
            return eq if isinstance(op, ast.Eq) else (not eq)
        if isinstance(left, tuple) and isinstance(right, tuple):
            return (left == right) if isinstance(op, ast.Eq) else (left != right)
        return super().sym_compare(op, left, right, node)


def _mask_spec(consumer, producer):
    """Documented rule: who accepts whom (consumer = downstream requirement)."""
    def kind(m):
        if m is None:
            return "none"
        if m == MFLEX:
            return "FLEX"
        if m == MNONE:
            return "NONE"
        return "given"
    kc, kp = kind(consumer), kind(producer)
    if kp == "none":
        return False
    if kc == "FLEX":
        return True
    if kc == "NONE":
        return kp == "NONE"
    if kc == "none":
        return None  # not specified by the property
    # fixed-mask consumer: producer must give an equal mask
    if kp in ("FLEX", "NONE"):
        return False
    return "equal"


def _masks_equal_spec(a, b):
    def empty(m):
        return m == NOMASK or (isinstance(m, Sym) and m.op == "maskarr" and not m.args[1])
    if empty(a) and empty(b):
        return True
    if a == NOMASK or b == NOMASK:
        return False
    return a.args[0] == b.args[0]


def r37_masktable(repo, sink):
    f = repo.func(MASK_PY, "masks_compatible")
    vals = [None, MFLEX, MNONE, NOMASK, _arr("A"), _arr("B"), _arr("Z", False)]
    worst, cases = None, 0
    for this, inc, down in itertools.product(vals, vals, (False, True)):
        cases += 1
        it = _MaskInterp(repo)
        gb = repo.cls("GridBase")
        try:
            got = it.run(f, [this, inc, down, Obj(cls=gb, label="gridA"), Obj(cls=gb, label="gridB")])
        except Raised as r:
            worst = worst or f"masks_compatible({this!r}, {inc!r}, downstream={down}) raises {r.name}"
            continue
        except Undecided as u:
            raise AnalysisError(f"masks_compatible: undecidable {u}") from u
        consumer, producer = (inc, this) if down else (this, inc)
        want = _mask_spec(consumer, producer)
        if want is None:
            continue
        if want == "equal":
            want = _masks_equal_spec(consumer, producer)
        if bool(got) != want:
            worst = worst or (f"consumer mask {consumer!r}, producer mask {producer!r} (incoming from {'downstream' if down else 'upstream'}): "
                              f"{'accepted' if got else 'rejected'}, documented rule says {'accept' if want else 'reject'}")
    sink.check(worst is None, "R37", "mask-table", f,
               ok=f"{cases} combinations: FLEX consumer accepts any producer, NONE only NONE, a fixed mask only an equal mask",
               bad=worst or "")
    sink.floor("R37", "mask combinations", cases, 98)


# ========================================================================== R33c
_NP_SIG = {"ravel": ["a", "order"], "reshape": ["a", "shape", "order"], "logical_not": ["x"], "invert": ["x"],
           "empty_like": ["prototype", "dtype"], "prod": ["a", "axis"], "compress": ["a", "condition", "axis"]}
_NP_ALIAS = {"newshape": "shape"}


def _np_term(short, args, kwargs, method=False):
    """Uninterpreted numpy term with arguments bound to the documented parameter names, so that
    `np.ravel(m, order=o)`, `np.ravel(m, o)` and `m.ravel(o)` are one and the same term."""
    sig = _NP_SIG.get(short)
    if sig is None:
        return Sym(short, *args, *[Sym("kw", k, v) for k, v in sorted(kwargs.items())])
    args = list(args)
    if short == "compress" and not method and len(args) >= 2:
        args[0], args[1] = args[1], args[0]  # np.compress(condition, a) == a.compress(condition)
    bound = dict(zip(sig, args))
    extra = list(args[len(sig):])
    for k, v in kwargs.items():
        bound[_NP_ALIAS.get(k, k)] = v
    if short == "compress" and not method and "condition" in kwargs and "a" in kwargs:
        bound["a"], bound["condition"] = kwargs["a"], kwargs["condition"]
    out = []
    for name in sig:
        if name in bound:
            out.append(bound.pop(name))
        else:
            break
    rest = [Sym("kw", k, v) for k, v in sorted(bound.items(), key=lambda kv: kv[0])]
    return Sym(short, *out, *extra, *rest)


class _ArrInterp(FinamInterp):
    """numpy calls become uninterpreted terms."""

    def __init__(self, repo, masked_input):
        super().__init__(repo)
        self.masked_input = masked_input

    def call_hook(self, fv, args, kwargs, node, mod):
        if isinstance(fv, Closure):
            n = getattr(fv.func, "name", "")
            if n == "is_masked_array":
                return self.masked_input and args[0] == Sym("X")
            if n == "is_quantified":
                return bool(getattr(self, "quantified", False)) and args[0] == Sym("X")
            if n == "quantify":
                if self._is_q(args[0]):
                    # quantify() refuses data that carries units already
                    self.on_raise(Sym("exc", "FinamDataError", "Data is already quantified"), node)
                return Sym("qty", args[0], args[1] if len(args) > 1 else kwargs.get("units"))
            if n == "get_magnitude":
                return Sym("X.magnitude") if args[0] == Sym("X") else args[0]
            if n == "mask_specified":
                return isinstance(args[0], Sym) and args[0].op in ("M", "nomask")
            if n == "to_masked":
                return Sym("to_masked", args[0], tuple(sorted(kwargs.items())))
        if isinstance(fv, Sym) and fv.op == "method":
            return _np_term(fv.args[1], [fv.args[0]] + list(args), kwargs, method=True)
        return super().call_hook(fv, args, kwargs, node, mod)

    def _is_q(self, v):
        """numpy's ravel / reshape / compress keep the units of a quantity (the masked array inside is reached only through
        `.data` / `.magnitude`)."""
        if not getattr(self, "quantified", False):
            return False
        if v == Sym("X"):
            return True
        return isinstance(v, Sym) and v.op in ("ravel", "reshape", "compress", "flatten") and bool(v.args) and self._is_q(v.args[0])

    def get_attr(self, obj, attr, node, mod):
        if isinstance(obj, Sym) and obj.op == "ext" and obj.args[0] in ("np.ma", "numpy.ma") and attr == "nomask":
            return NOMASK
        if isinstance(obj, Sym) and obj == Sym("X") and attr == "magnitude":
            return Sym("X.magnitude")
        if isinstance(obj, Sym) and obj == Sym("X.magnitude") and attr in ("data", "mask"):
            return Sym("X." + attr)  # the magnitude of a masked quantity: the same data and mask
        if isinstance(obj, Sym) and obj == Sym("X") and attr in ("data", "mask", "units"):
            if attr == "mask" and getattr(self, "nomask_input", False):
                return NOMASK
            return Sym("X." + attr)
        if isinstance(obj, Sym) and obj.op != "ext" and attr in ("compress", "ravel", "reshape"):
            return Sym("method", obj, attr)
        return super().get_attr(obj, attr, node, mod)

    def compare(self, op, left, right, node):
        if isinstance(op, (ast.Is, ast.IsNot)):
            same = left is right or (isinstance(left, Sym) and isinstance(right, Sym) and left == right)
            return same if isinstance(op, ast.Is) else not same
        return super().compare(op, left, right, node)

    def ext_call(self, name, args, kwargs, node):
        short = name.split(".")[-1]
        if short in ("ravel", "reshape", "logical_not", "empty_like", "prod", "compress", "invert"):
            return _np_term(short, list(args), kwargs)
        if short in ("isMaskedArray", "isMA", "is_masked_array") and args:
            return self.masked_input and args[0] in (Sym("X"), Sym("X.magnitude"))
        if short == "Quantity" and len(args) == 2:
            return Sym("qty", args[0], args[1])
        if short in ("asarray", "asanyarray") and args and (kwargs.get("dtype", args[1] if len(args) > 1 else None) in (Sym("builtin", "bool"), Sym("ext", "bool"), "bool")):
            return Sym("asbool", args[0])
        return super().ext_call(name, args, kwargs, node)

    def unaryop(self, op, v, node):
        if isinstance(op, ast.Invert) and isinstance(v, Sym) and v.op == "asbool":
            return Sym("logical_not", v.args[0])  # ~ on a boolean array is the logical negation
        return super().unaryop(op, v, node)

    def set_item(self, c, k, v, node):
        if isinstance(c, Sym):
            self.effects.append(("scatter", c, k, v))
            return
        super().set_item(c, k, v, node)


def r33c_compress(repo, sink):
    tc = repo.func(MASK_PY, "to_compressed")
    fc = repo.func(MASK_PY, "from_compressed")
    X, M, O, SH = Sym("X"), Sym("M"), Sym("order"), Sym("shape")
    # to_compressed with an explicit mask on plain data
    it = _ArrInterp(repo, masked_input=False)
    got = it.run(tc, [X], {"order": O, "mask": M})
    want = Sym("compress", Sym("ravel", X, O), Sym("logical_not", Sym("ravel", M, O)))
    sink.check(got == want, "R33", "compress:to:explicit-mask", tc,
               ok="drops masked entries of ravel(data, order) using ravel(mask, order)",
               bad=f"to_compressed computes {got!r}; data and mask must be flattened with the same requested order and the negated mask selects")
    it = _ArrInterp(repo, masked_input=True)
    got = it.run(tc, [X], {"order": O})
    want = Sym("compress", Sym("ravel", Sym("X.data"), O), Sym("logical_not", Sym("ravel", Sym("X.mask"), O)))
    sink.check(got == want, "R33", "compress:to:masked-array", tc, ok="masked arrays: own data and own mask, same order",
               bad=f"to_compressed on a masked array computes {got!r}")
    # quantified masked data: the compressed values carry the units of the input
    it = _ArrInterp(repo, masked_input=True)
    it.quantified = True
    try:
        got = it.run(tc, [X], {"order": O})
        ok = isinstance(got, Sym) and got.op == "qty" and got.args[1] == Sym("X.units") and got.args[0] == want
        sink.check(ok, "R33", "compress:to:quantified", tc, ok="quantified masked data: compressed values with the units of the input",
                   bad=f"to_compressed on a quantified masked array computes {got!r}: the result must be the compressed values labelled with the input's units "
                       "(5 m must not come back as 5)")
    except (Raised, Undecided, AnalysisError) as exc:
        sink.unknown("R33", "compress:to:quantified", tc, f"outside vocabulary: {exc}")
    # quantified plain data with an explicit mask: the same round trip, the units are attached once
    it = _ArrInterp(repo, masked_input=False)
    it.quantified = True
    try:
        got = it.run(tc, [X], {"order": O, "mask": M})
        want_q = Sym("compress", Sym("ravel", Sym("X.magnitude"), O), Sym("logical_not", Sym("ravel", M, O)))
        ok = isinstance(got, Sym) and got.op == "qty" and got.args[1] == Sym("X.units") and got.args[0] == want_q
        sink.check(ok, "R33", "compress:to:quantified-explicit-mask", tc, ok="quantified plain data with an explicit mask: compressed magnitudes with the units of the input",
                   bad=f"to_compressed on a quantified plain array with an explicit mask computes {got!r}")
    except Raised as r:
        sink.bad("R33", "compress:to:quantified-explicit-mask", tc,
                 f"to_compressed on a quantified plain array with an explicit mask raises {r.name}: the flattened data still carries its units when they are "
                 "attached again - the compress / expand round trip fails for quantified unmasked data in every shape and order")
    except (Undecided, AnalysisError) as exc:
        sink.unknown("R33", "compress:to:quantified-explicit-mask", tc, f"outside vocabulary: {exc}")
    # masked array / explicit mask that is numpy's `nomask`: nothing is dropped, the order still applies
    it = _ArrInterp(repo, masked_input=True)
    it.nomask_input = True
    got = it.run(tc, [X], {"order": O})
    sink.check(got == Sym("ravel", Sym("X.data"), O), "R33", "compress:to:masked-array-nomask", tc, ok="masked array without masked cells: flattened in the requested order",
               bad=f"to_compressed on a masked array whose mask is nomask computes {got!r}: the requested order is lost")
    it = _ArrInterp(repo, masked_input=False)
    got = it.run(tc, [X], {"order": O, "mask": NOMASK})
    sink.check(got == Sym("ravel", X, O), "R33", "compress:to:explicit-nomask", tc, ok="mask=nomask: flattened in the requested order",
               bad=f"to_compressed(mask=nomask) computes {got!r}: the requested order is lost")
    it = _ArrInterp(repo, masked_input=False)
    got = it.run(tc, [X], {"order": O})
    sink.check(got == Sym("reshape", X, -1, O), "R33", "compress:to:unmasked", tc, ok="unmasked data is flattened in the requested order",
               bad=f"to_compressed on unmasked data computes {got!r}")
    # from_compressed
    it = _ArrInterp(repo, masked_input=False)
    got = it.run(fc, [X, SH], {"order": O, "mask": M})
    sc = [e for e in it.effects if e[0] == "scatter"]
    ok = (len(sc) == 1 and sc[0][2] == Sym("logical_not", Sym("ravel", M, O)) and sc[0][3] == X
          and isinstance(got, Sym) and got.op == "to_masked" and got.args[0] == Sym("reshape", sc[0][1], SH, O)
          and dict(got.args[1]).get("mask") == M)
    sink.check(ok, "R33", "compress:from:mask", fc,
               ok="scatters into the unmasked positions of ravel(mask, order), reshapes with the same order, attaches the same mask",
               bad=f"from_compressed computes {got!r} with scatter {sc!r}: positions, order and mask must mirror to_compressed")
    it = _ArrInterp(repo, masked_input=False)
    got = it.run(fc, [X, SH], {"order": O})
    sink.check(got == Sym("reshape", X, SH, O), "R33", "compress:from:unmasked", fc, ok="without mask: plain reshape in the requested order",
               bad=f"from_compressed without mask computes {got!r}")


# =========================================================================== R35
class _RegridInterp(FinamInterp):
    def __init__(self, repo, need_mask=True):
        super().__init__(repo)
        self.need_mask = need_mask

    def call_hook(self, fv, args, kwargs, node, mod):
        if isinstance(fv, Closure):
            n = getattr(fv.func, "name", "")
            if n == "_need_mask":
                return self.need_mask
            if n == "_do_transform":
                return Sym("crs", args[0])
            if n == "pull_data":
                return Sym("pulled", args[0], args[1] if len(args) > 1 else None)
            if n == "_check_in_data":
                self.effects.append(("checked", args[0]))
                return None
            if n == "_check_and_set_out_mask":
                return None
            if n == "to_compressed":
                return Sym("tc", args[0], kwargs.get("order", args[1] if len(args) > 1 else "C"), kwargs.get("mask"))
            if n == "from_compressed":
                return Sym("fc", args[0], kwargs.get("shape", args[1] if len(args) > 1 else None),
                           kwargs.get("order", args[2] if len(args) > 2 else "C"), kwargs.get("mask"))
        if isinstance(fv, Sym) and fv.op == "method":
            kw = tuple(sorted(kwargs.items()))
            return Sym(fv.args[1], fv.args[0], *args, *( [Sym("kw", k, v) for k, v in kw]))
        return super().call_hook(fv, args, kwargs, node, mod)

    def get_attr(self, obj, attr, node, mod):
        if isinstance(obj, Sym) and obj.op != "ext" and attr in ("ravel", "query"):
            return Sym("method", obj, attr)
        return super().get_attr(obj, attr, node, mod)

    def ext_call(self, name, args, kwargs, node):
        short = name.split(".")[-1]
        if short == "logical_not":
            return Sym("logical_not", args[0])
        if short == "KDTree":
            return Sym("tree", args[0])
        return super().ext_call(name, args, kwargs, node)

    def sym_item(self, c, k, node):
        if isinstance(c, Sym):
            return Sym("select", c, k)
        return super().sym_item(c, k, node)


def _regrid_obj(repo, cname):
    c = repo.cls(cname)
    o = Obj(cls=c, label=cname)
    ing = Obj(label="ingrid", fields={"data_points": Sym("IN_POINTS"), "order": Sym("IN_ORDER"), "data_shape": Sym("IN_SHAPE"), "dim": 2})
    outg = Obj(label="outgrid", fields={"data_points": Sym("OUT_POINTS"), "order": Sym("OUT_ORDER"), "data_shape": Sym("OUT_SHAPE"), "dim": 2})
    _seed_after_exchange(repo, c, o, {"in_grid": ing, "out_grid": outg, "out_mask": Sym("OUT_MASK"), "tree_options": None})
    o.fields.update(input_grid=ing, output_grid=outg, input_mask=Sym("IN_MASK"), output_mask=Sym("OUT_MASK"),
                    tree_options=None, ids=Sym("IDS"), logger=Logger(label="logger"), transformer=None)
    return o


def _seed_after_exchange(repo, c, o, params):
    """The object as its constructors leave it, with every one-shot flag the constructors initialise to False raised: the state
    after the first info exchange (grids known, output mask checked).  No flag is named."""
    from ..absbase import FinamInterp, seed_from_init
    seed_from_init(FinamInterp(repo), c, o, params)
    for k, v in list(o.fields.items()):
        if v is False:
            o.fields[k] = True


def r35_regrid(repo, sink):
    """(coordinates, tree, pairing and the info exchange of both regridders: regrid2.r35x, end to end)"""
    if not repo.has_cls("ARegridding"):
        raise AnalysisError("ARegridding not found")
    _regrid_linear_mask(repo, sink)
    # (the linear regridder's pairing, the comparison of a user-given output grid with the requested one and the delivered
    #  info are decided end to end by regrid2.r35x: abstract runs of get_info / _update_grid_specs / _get_data)


def _has_op(v, op):
    if isinstance(v, Sym):
        return v.op == op or any(_has_op(a, op) for a in v.args)
    return False


def _regrid_linear_mask(repo, sink):
    """Decision table of the output mask chosen by RegridLinear without nearest filling."""
    if not repo.has_cls("RegridLinear"):
        return
    c = repo.cls("RegridLinear")
    ug = repo.resolve(c, "_update_grid_specs", "method")
    FLEX, NONE_ = Sym("enum", "Mask", "FLEX"), Sym("enum", "Mask", "NONE")
    OUTL, GIVEN = Sym("outlier_mask"), Sym("given_mask")

    class _L(_RegridInterp):
        def __init__(self, repo, any_outlier, sub):
            super().__init__(repo, False)
            self.any_outlier, self.sub = any_outlier, sub

        def call_hook(self, fv, args, kwargs, node, mod):
            if isinstance(fv, Closure):
                n = getattr(fv.func, "name", "")
                if n in ("_get_out_coords", "_get_in_coords"):
                    return Sym(n)
                if n == "is_sub_mask":
                    return self.sub
                if n == "from_compressed":
                    return Sym("fc")
            if isinstance(fv, Sym) and fv.op == "inter":
                return Sym("res")
            return super().call_hook(fv, args, kwargs, node, mod)

        def attr(self, base, attr, node, mod):
            from ..loader import Class
            if isinstance(base, Class) and base.name == "Mask" and attr in ("FLEX", "NONE"):
                return Sym("enum", "Mask", attr)
            return super().attr(base, attr, node, mod)

        def get_attr(self, obj, attr, node, mod):
            if isinstance(obj, Sym) and obj.op == "ext" and obj.args[0] in ("np.ma", "numpy.ma") and attr == "nomask":
                return Sym("nomask")
            if isinstance(obj, Obj) and obj.label in ("ingrid", "outgrid") and attr in obj.fields:
                return obj.fields[attr]
            return super().get_attr(obj, attr, node, mod)

        def ext_call(self, name, args, kwargs, node):
            short = name.split(".")[-1]
            if short in ("RegularGridInterpolator", "LinearNDInterpolator"):
                return Sym("inter")
            if short in ("isnan", "zeros"):
                return Sym(short)
            if short == "make_mask":
                return OUTL
            if short == "any":
                return self.any_outlier
            return super().ext_call(name, args, kwargs, node)

        def isinstance(self, v, klass, node):
            from ..loader import Class
            if isinstance(klass, Class) and klass.name == "StructuredGrid":
                return False
            return super().isinstance(v, klass, node)

        def compare(self, op, left, right, node):
            if isinstance(op, (ast.Is, ast.IsNot)):
                same = left is right or (isinstance(left, Sym) and isinstance(right, Sym) and left == right) or (left is None and right is None)
                return same if isinstance(op, ast.Is) else not same
            return super().compare(op, left, right, node)

        def builtin(self, name, args, kwargs, node):
            if name == "len":
                return 3
            return super().builtin(name, args, kwargs, node)

    table = [
        ("no mask requested", None, False, True, OUTL), ("flexible mask requested", FLEX, True, True, OUTL),
        ("unmasked result requested, hull covers the domain", NONE_, False, True, NONE_),
        ("unmasked result requested, targets outside the hull", NONE_, True, True, "FinamDataError"),
        ("explicit mask covering everything outside the hull", GIVEN, True, True, GIVEN),
        ("explicit mask leaving cells outside the hull unmasked", GIVEN, True, False, "FinamDataError"),
    ]
    worst = None
    for name, mask, anyo, sub, want in table:
        it = _L(repo, anyo, sub)
        o = _regrid_obj(repo, "RegridLinear")
        o.fields.update(output_mask=mask, fill_with_nearest=False, structured=False, inter=None, out_coords=None, out_ids=None, fill_ids=None)
        try:
            it.run(ug, [], self_obj=o)
            got = o.fields["output_mask"]
        except Raised as r:
            got = r.name
        except (Undecided, AnalysisError) as exc:
            sink.unknown("R35", "linear-output-mask", ug, f"outside vocabulary: {exc}")
            return
        if got != want:
            worst = worst or f"{name}: output mask becomes {got!r}, must be {want!r}"
    sink.check(worst is None, "R35", "linear-output-mask", ug,
               ok="linear regridding without filling: outliers are masked, an explicit / NONE mask is honoured or refused if it cannot be",
               bad=(worst or "") + ": masked target cells must stay masked / the announced mask must be the requested one")


# ====================================================================== R15 / R16
class _InfoInterp(FinamInterp):
    def __init__(self, repo, script):
        super().__init__(repo)
        self.script = script
        self.mask_calls = []

    def call_hook(self, fv, args, kwargs, node, mod):
        if isinstance(fv, Closure):
            n = getattr(fv.func, "name", "")
            if n == "masks_compatible":
                bound = dict(zip(fv.func.params, args))
                bound.update(kwargs)
                self.mask_calls.append(bound)
                return self.script["mask"]
            if n == "compatible_units":
                return self.script["units"]
        if isinstance(fv, Sym) and fv.op == "gridcompat":
            return self.script["grid"]
        return super().call_hook(fv, args, kwargs, node, mod)

    def get_attr(self, obj, attr, node, mod):
        if isinstance(obj, Obj) and obj.label == "grid" and attr == "compatible_with":
            return Sym("gridcompat")
        return super().get_attr(obj, attr, node, mod)

    def isinstance(self, v, klass, node):
        from ..loader import Class
        if isinstance(klass, Class) and klass.name == "Info":
            return isinstance(v, Obj) and v.cls is klass
        return super().isinstance(v, klass, node)


def _info_obj(repo, grid, mask, units):
    c = repo.cls("Info")
    o = Obj(cls=c, label="Info")
    from ..absbase import set_backed
    o.fields.update(meta={"units": units}, units=units)
    for prop, v in (("grid", grid), ("mask", mask), ("time", None)):
        set_backed(repo, o, prop, v)
    o.given = {"grid": grid, "mask": mask}
    return o


def r15_fields(repo, sink):
    acc = repo.method("Info", "accepts")
    G = Obj(label="grid")
    worst, cases = None, 0
    pairing, pair_bad = 0, None
    for g_ok, m_ok, u_ok, down, inc_none in itertools.product((True, False), (True, False), (True, False), (False, True), (False, True)):
        cases += 1
        it = _InfoInterp(repo, {"grid": g_ok, "mask": m_ok, "units": u_ok})
        me = _info_obj(repo, G, Sym("maskarr", "A", True), Sym("unit", "a"))
        inc = _info_obj(repo, None if inc_none else Obj(label="grid"), None if inc_none else Sym("maskarr", "B", True), None if inc_none else Sym("unit", "b"))
        fail = {}
        try:
            got = it.run(acc, [inc, fail], {"incoming_donwstream": down}, self_obj=me)
        except (Raised, Undecided) as exc:
            worst = worst or f"accepts raises {exc}"
            continue
        for b in it.mask_calls:
            pairing += 1
            want = {"this": me.given["mask"], "incoming": inc.given["mask"], "this_grid": me.given["grid"], "incoming_grid": inc.given["grid"]}
            for k, v in want.items():
                if b.get(k) is not v and b.get(k) != v:
                    pair_bad = pair_bad or f"masks_compatible is called with {k}={b.get(k)!r} where the {k.replace('_', ' ')} is {v!r}"
            flagv = [v for k, v in b.items() if k not in want]
            if flagv != [down]:
                pair_bad = pair_bad or f"masks_compatible is told the incoming side is {'downstream' if flagv and flagv[0] else 'upstream'} while accepts was called with downstream={down}"
        exp_fail = set()
        tolerated = down and inc_none
        if not tolerated:
            if not g_ok:
                exp_fail.add("grid")
            if not m_ok:
                exp_fail.add("mask")
            if inc_none or not u_ok:
                exp_fail.add("units")
        if set(fail) != exp_fail or bool(got) != (not exp_fail):
            worst = worst or (f"grid ok={g_ok}, mask ok={m_ok}, units ok={u_ok}, incoming from {'downstream' if down else 'upstream'}"
                              f"{' with unset fields' if inc_none else ''}: result {got}, failed fields {sorted(fail)}; expected result {not exp_fail}, failed {sorted(exp_fail)}")
    sink.check(worst is None, "R15", "accepts-table", acc,
               ok=f"{cases} cases: every incompatible field is recorded and clears the result; unset fields are tolerated only from downstream",
               bad=worst or "")
    # the mask rule is consulted for every kind of own mask specification (flexible, none, a fixed array): only an unset mask is
    # left to the other side
    FLEX, NONE_ = Sym("enum", "Mask", "FLEX"), Sym("enum", "Mask", "NONE")
    kinds_bad = None
    for kname, own in (("Mask.FLEX", FLEX), ("Mask.NONE", NONE_), ("a fixed mask array", Sym("maskarr", "A", True)), ("unset (None)", None)):
        for iname, incoming in (("Mask.FLEX", FLEX), ("Mask.NONE", NONE_), ("a fixed mask array", Sym("maskarr", "B", True))):
            for down in (False, True):
                it = _InfoInterp(repo, {"grid": True, "mask": False, "units": True})
                me = _info_obj(repo, G, own, Sym("unit", "a"))
                inc = _info_obj(repo, G, incoming, Sym("unit", "a"))
                fail = {}
                try:
                    got = it.run(acc, [inc, fail], {"incoming_donwstream": down}, self_obj=me)
                except (Raised, Undecided, AnalysisError) as exc:
                    kinds_bad = kinds_bad or f"own mask {kname}, incoming {iname}: {exc}"
                    continue
                consulted = bool(it.mask_calls)
                if own is None:
                    if consulted or not got:
                        kinds_bad = kinds_bad or f"own mask unset, incoming {iname}: result {got}, mask rule consulted {consulted}; an unset mask accepts whatever comes"
                elif not consulted or got or "mask" not in fail:
                    kinds_bad = kinds_bad or (f"own mask {kname}, incoming {iname} from {'downstream' if down else 'upstream'}, mask rule says incompatible: accepts returns {got} "
                                              f"(mask rule consulted: {consulted}, failed fields {sorted(fail)}); every mask specification - also Mask.NONE and Mask.FLEX - "
                                              "is checked against the other side")
    sink.check(kinds_bad is None, "R15", "accepts-mask-kinds", acc,
               ok="the mask rule decides for flexible, unmasked and fixed own masks alike; only an unset mask accepts anything", bad=kinds_bad or "")
    if pairing == 0:
        sink.unknown("R37", "mask-grid-pairing:accepts", acc, "Info.accepts never reached masks_compatible in the abstract runs")
    else:
        sink.check(pair_bad is None, "R37", "mask-grid-pairing:accepts", acc,
                   ok=f"{pairing} abstract calls: each mask is passed with its own grid and the direction flag of the call",
                   bad=(pair_bad or "") + ": Info.accepts pairs a mask with the wrong grid / flag")
    # Output.get_info / Input.exchange_info: decided by abstract runs over scripted infos (rules/exchange.py)
    from . import exchange
    exchange.run(repo, sink, (exchange.r16x_output_get_info, exchange.r16x_input_exchange))


def r16_getinfo(repo, sink):
    """The adapters' side of the metadata exchange, by abstract runs of the public get_info() of every concrete adapter and of
    the Adapter / TimeDelayAdapter plumbing (rules/exchange.py): no call site or statement shape is matched."""
    from . import exchange
    exchange.run(repo, sink, (exchange.r16x_adapter_get_info, exchange.r16x_adapter_plumbing))


def _derives_from(f, expr, roots, stop=(), depth=0):
    """`expr` is built from one of the names in `roots` (through locals, attribute access,
    copy_with calls)."""
    if depth > 6:
        return False
    for n in ast.walk(expr):
        if isinstance(n, ast.Name):
            if n.id in roots:
                return True
    for n in ast.walk(expr):
        if isinstance(n, ast.Name) and n.id not in stop and n.id != "self":
            defs = [d for d in fn_walk(f.node) if isinstance(d, ast.Assign) and any(isinstance(t, ast.Name) and t.id == n.id for t in d.targets)]
            for d in defs:
                if _derives_from(f, d.value, roots, stop, depth + 1):
                    return True
    return False


# ==================================================================== R37e / R15g
def r37e_masks_equal_layout(repo, sink):
    """masks_equal compares masks *after* bringing each to canonical form with its own grid:
    raw-identical arrays on differently laid-out grids are different masks, and differently
    stored arrays can be the same mask."""
    f = repo.func(MASK_PY, "masks_equal")

    class _I(_MaskInterp):
        def __init__(self, repo, raw_equal):
            super().__init__(repo)
            self.raw_equal = raw_equal

        def get_attr(self, obj, attr, node, mod):
            if isinstance(obj, Obj) and obj.label.startswith("lgrid") and attr == "to_canonical":
                return Sym("canon_with", obj.label)
            return super().get_attr(obj, attr, node, mod)

        def call_hook(self, fv, args, kwargs, node, mod):
            if isinstance(fv, Sym) and fv.op == "canon_with":
                m = args[0]
                if isinstance(m, Sym) and m.op == "lmask_shared":
                    return Sym("lmask_canon", (m.args[0], fv.args[0]))
                if isinstance(m, Sym) and m.op == "lmask":
                    if m.args[1] != fv.args[0]:
                        return Sym("lmask_canon", ("wrong-grid", m.args[0], m.args[1], fv.args[0]))
                    return Sym("lmask_canon", m.args[0])
                return m
            return super().call_hook(fv, args, kwargs, node, mod)

        def ext_call(self, name, args, kwargs, node):
            short = name.split(".")[-1]
            if short == "is_mask":
                return isinstance(args[0], Sym) and args[0].op in ("lmask", "lmask_canon", "lmask_shared", "nomask")
            if short == "any":
                return True
            if short == "shape" and isinstance(args[0], Sym):
                m = args[0]
                if m.op == "lmask":
                    # the raw shape follows the layout of the grid the mask belongs to
                    return (Sym("n0"), Sym("n1")) if m.args[1] == "lgrid1" else (Sym("n1"), Sym("n0"))
                if m.op == "lmask_canon":
                    return (Sym("n0"), Sym("n1"))
                if m.op == "lmask_shared":
                    return (Sym("n"), Sym("n"))
            if short == "ndim":
                return 2
            return super().ext_call(name, args, kwargs, node)

        def sym_compare(self, op, left, right, node):
            if isinstance(left, Sym) and isinstance(right, Sym) and {left.op, right.op} <= {"lmask", "lmask_canon", "lmask_shared"}:
                if left.op == right.op == "lmask_canon":
                    eq = left.args[0] == right.args[0]
                elif left.op == right.op == "lmask_shared":
                    eq = left.args[0] == right.args[0]
                elif left.op == right.op == "lmask":
                    eq = self.raw_equal
                else:
                    eq = False
                return eq if isinstance(op, ast.Eq) else not eq
            return super().sym_compare(op, left, right, node)

    cases = [
        # (physical id a, physical id b, raw arrays equal?, expected)
        ("same mask, same layout", "A", "A", True, True),
        ("raw-identical arrays on differently laid-out grids (different physical masks)", "A", "B", True, False),
        ("same physical mask stored in two layouts (raw arrays differ)", "A", "A", False, True),
        ("different masks", "A", "B", False, False),
    ]
    worst = None
    for name, ca, cb, raw_eq, want in cases:
        it = _I(repo, raw_eq)
        g1, g2 = Obj(label="lgrid1"), Obj(label="lgrid2")
        try:
            got = it.run(f, [Sym("lmask", ca, "lgrid1"), Sym("lmask", cb, "lgrid2"), g1, g2])
        except (Raised, Undecided) as exc:
            worst = worst or f"{name}: {exc}"
            continue
        if bool(got) != want:
            worst = worst or f"{name}: masks_equal says {bool(got)}, must be {want}"
    mc = repo.func(MASK_PY, "masks_compatible")
    for down in (False, True):
        for name, ca, cb, raw_eq, want in cases:
            it = _I(repo, raw_eq)
            g1, g2 = Obj(label="lgrid1"), Obj(label="lgrid2")
            try:
                got = it.run(mc, [Sym("lmask", ca, "lgrid1"), Sym("lmask", cb, "lgrid2"), down, g1, g2])
            except (Raised, Undecided) as exc:
                worst = worst or f"masks_compatible, incoming from {'downstream' if down else 'upstream'}, {name}: {exc}"
                continue
            if bool(got) != want:
                worst = worst or (f"masks_compatible, incoming from {'downstream' if down else 'upstream'}, {name}: {bool(got)}, must be {want} "
                                  "(each mask has to be canonicalised with its own grid)")
    # a side that leaves its grid open (it takes the other side's grid) still has a mask requirement: the masks are then
    # compared as they are given - a different mask is not "equal"
    nogrid_bad = None
    for down in (False, True):
        for which in ("own grid unset", "incoming grid unset", "both unset"):
            for ca, cb, raw_eq, want in (("A", "A", True, True), ("A", "B", False, False)):
                it = _I(repo, raw_eq)
                g1 = None if which in ("own grid unset", "both unset") else Obj(label="lgrid1")
                g2 = None if which in ("incoming grid unset", "both unset") else Obj(label="lgrid1")
                try:
                    got = it.run(mc, [Sym("lmask", ca, "lgrid1"), Sym("lmask", cb, "lgrid1"), down, g1, g2])
                except (Raised, Undecided, AnalysisError) as exc:
                    nogrid_bad = nogrid_bad or f"{which}: {exc}"
                    continue
                if bool(got) != want:
                    nogrid_bad = nogrid_bad or (f"fixed masks, {which}, incoming from {'downstream' if down else 'upstream'}, "
                                                f"{'the same mask' if want else 'two different masks'}: compatible={bool(got)}, must be {want}")
    sink.check(nogrid_bad is None, "R37", "masks-without-grid", mc,
               ok="fixed masks are compared as given when a side has no grid of its own: equal masks accepted, different masks refused",
               bad=(nogrid_bad or "") + ": a consumer that fixes a mask but takes the producer's grid accepts any mask of the same rank")
    # one mask *object* shared by two infos on differently laid-out (square) grids marks different cells
    shared = Sym("lmask_shared", "S")
    for down in (False, True):
        it = _I(repo, True)
        try:
            got = it.run(mc, [shared, shared, down, Obj(label="lgrid1"), Obj(label="lgrid2")])
            if bool(got):
                worst = worst or ("masks_compatible accepts one and the same mask array for two differently laid-out grids "
                                  f"(incoming from {'downstream' if down else 'upstream'}): the same array marks different cells there")
            got = it.run(mc, [shared, shared, down, Obj(label="lgrid1"), Obj(label="lgrid1")])
            if not bool(got):
                worst = worst or "masks_compatible rejects identical masks on identical grids"
        except (Raised, Undecided) as exc:
            worst = worst or f"shared mask object: {exc}"
    sink.check(worst is None, "R37", "masks_equal-layout", f,
               ok="masks are compared in canonical form, each converted with its own grid",
               bad=(worst or "") + ": mask equality must be decided on the canonical (layout independent) form")


class _GridCompat(FinamInterp):
    def __init__(self, repo, close=True):
        super().__init__(repo)
        self.close = close

    def builtin(self, name, args, kwargs, node):
        if name == "len" and isinstance(args[0], Sym) and args[0].op == "axis":
            return args[0].args[1]
        return super().builtin(name, args, kwargs, node)

    def ext_call(self, name, args, kwargs, node):
        short = name.split(".")[-1]
        if short in ("allclose", "isclose", "array_equal") and all(isinstance(a, (tuple, list, int, float)) and not isinstance(a, bool) for a in args[:2]):
            # concrete coordinate vectors / numbers (exactly representable): close iff equal, entry by entry
            a, b = args[0], args[1]
            if isinstance(a, (tuple, list)) != isinstance(b, (tuple, list)):
                a = a if isinstance(a, (tuple, list)) else [a] * len(b)
                b = b if isinstance(b, (tuple, list)) else [b] * len(a)
            if isinstance(a, (tuple, list)):
                if len(a) != len(b):
                    self.on_raise(Sym("exc", "ValueError", "operands could not be broadcast together"), node)
                return all(x == y for x, y in zip(a, b)) if short != "isclose" else Vec(x == y for x, y in zip(a, b))
            return a == b
        if short == "allclose":
            if isinstance(args[0], Sym) and isinstance(args[1], Sym) and args[0].op == "axis":
                return args[0] == args[1]
            return self.close
        if short == "all" and isinstance(args[0], (bool, list, tuple)):
            return bool(args[0]) if isinstance(args[0], bool) else all(args[0])
        if short in ("array_equal", "array_equiv") and all(isinstance(a, (list, tuple)) for a in args[:2]):
            return list(args[0]) == list(args[1])  # concrete configuration vectors (axes directions, shapes)
        if short in ("asarray", "array") and args and isinstance(args[0], (list, tuple)):
            return args[0]
        return super().ext_call(name, args, kwargs, node)

    def sym_compare(self, op, left, right, node):
        if isinstance(op, (ast.Eq, ast.NotEq)):
            eq = left == right
            return eq if isinstance(op, ast.Eq) else not eq
        return super().sym_compare(op, left, right, node)


def r15g_gridcompat(repo, sink):
    # NoGrid: same rank and same shape entries
    ng = repo.cls("NoGrid")
    cw = repo.resolve(ng, "compatible_with", "method")
    init = repo.resolve(ng, "__init__", "method")

    def mk(**kw):
        o = Obj(cls=ng, label="NoGrid")
        _GridCompat(repo).run(init, [], kw, self_obj=o)
        return o

    table = [
        ({}, {}, True), ({"dim": 1}, {"dim": 1}, True), ({"dim": 1}, {"dim": 2}, False), ({}, {"dim": 1}, False),
        ({"dim": 2}, {"dim": 1}, False), ({"data_shape": (3,)}, {"data_shape": (3,)}, True), ({"data_shape": (3,)}, {"data_shape": (4,)}, False),
        ({"data_shape": (3,)}, {"data_shape": (3, 2)}, False), ({"dim": 1}, {"data_shape": (3,)}, False),
    ]
    worst = None
    for a, b, want in table:
        try:
            got = _GridCompat(repo).run(cw, [mk(**b)], self_obj=mk(**a))
        except (Raised, Undecided) as exc:
            worst = worst or f"NoGrid({a}) vs NoGrid({b}): {exc}"
            continue
        if bool(got) != want:
            worst = worst or f"NoGrid({a}).compatible_with(NoGrid({b})) is {bool(got)}, must be {want} (rank and shape entries must agree)"
    other = Obj(cls=repo.cls("StructuredGrid"), label="grid")
    if _GridCompat(repo).run(cw, [other], self_obj=mk()) is not False:
        worst = worst or "NoGrid is compatible with a spatial grid"
    sink.check(worst is None, "R15", "compat-table:NoGrid", cw, ok="grid-less data is compatible iff rank and shape entries agree", bad=worst or "")
    # StructuredGrid.compatible_with: every ingredient is necessary
    sg = repo.cls("StructuredGrid")
    f = repo.resolve(sg, "compatible_with", "method")

    def grid(dim=2, crs=None, loc="CELLS", rev=False, shape=(3, 2), label="grid", axes=None):
        o = Obj(cls=sg, label=label)
        ax = axes or [Vec((0, 1, 2, 4)), Vec((0, 1, 3)), Vec((0, 5))]
        o.fields.update(dim=dim, crs=crs, data_location=Sym("enum", "Location", loc), axes_reversed=rev,
                        data_shape=shape, axes=ax[:dim])
        return o

    base = dict(dim=2, crs=None, loc="CELLS", rev=False, shape=(3, 2))
    cases = [
        ("identical", {}, True, True),
        ("different dimension", {"dim": 1}, True, False),
        ("different CRS", {"crs": "EPSG:4326"}, True, False),
        ("different data location", {"loc": "POINTS"}, True, False),
        ("different data shape", {"shape": (4, 2)}, True, False),
        ("reversed axes order, transposed shape", {"rev": True, "shape": (2, 3)}, True, True),
        ("reversed axes order, same shape", {"rev": True, "shape": (3, 2)}, True, False),
        ("only the x coordinates differ", {"axes": [Vec((1, 2, 3, 5)), Vec((0, 1, 3))]}, True, False),
        ("only the y coordinates differ", {"axes": [Vec((0, 1, 2, 4)), Vec((0, 2, 4))]}, True, False),
        ("same extent and node count, different interior nodes in x", {"axes": [Vec((0, 2, 3, 4)), Vec((0, 1, 3))]}, True, False),
        ("same extent and node count, different interior nodes in y", {"axes": [Vec((0, 1, 2, 4)), Vec((0, 2, 3))]}, True, False),
        ("one more node in x (shape of CELLS data differs too)", {"axes": [Vec((0, 1, 2, 3, 4)), Vec((0, 1, 3))], "shape": (4, 2)}, True, False),
    ]
    worst = None
    for name, delta, close, want in cases:
        it = _GridCompat(repo, close)
        try:
            got = it.run(f, [grid(**{**base, **delta})], self_obj=grid(**base))
        except (Raised, Undecided) as exc:
            worst = worst or f"{name}: {exc}"
            continue
        if bool(got) != want:
            worst = worst or f"{name}: compatible_with is {bool(got)}, must be {want}"
    it = _GridCompat(repo)
    if it.run(f, [Obj(cls=repo.cls("NoGrid"), label="NoGrid")], self_obj=grid(**base)) is not False:
        worst = worst or "a structured grid is compatible with NoGrid"
    sink.check(worst is None, "R15", "compat-table:StructuredGrid", f,
               ok="compatible iff same dimension, CRS, data location, (axis-order aware) data shape and coordinates", bad=worst or "")
    # unstructured grids: Grid.compatible_with
    ug = repo.cls("UnstructuredGrid") if repo.has_cls("UnstructuredGrid") else repo.cls("Grid")
    fu = repo.resolve(ug, "compatible_with", "method")

    def mesh(dim=2, crs=None, order="C", loc="CELLS", shape=(5,), points="P", cells="C", types="T"):
        o = Obj(cls=ug, label="mesh")
        o.fields.update(dim=dim, crs=crs, order=order, data_location=Sym("enum", "Location", loc), data_shape=shape,
                        points=Sym("arr", points), cells=Sym("arr", cells), cell_types=Sym("arr", types))
        return o

    class _MeshCompat(_GridCompat):
        # arrays are named symbols; a name "X@n" carries the length n of its first axis (numpy refuses to broadcast arrays
        # whose lengths differ, array_equal answers False)
        @staticmethod
        def _len(a):
            return a.args[0].partition("@")[2] or None

        def ext_call(self, name, args, kwargs, node):
            short = name.split(".")[-1]
            if short in ("allclose", "array_equal", "array_equiv") and all(isinstance(a, Sym) and a.op == "arr" for a in args[:2]):
                if self._len(args[0]) != self._len(args[1]):
                    if short == "allclose":
                        self.on_raise(Sym("exc", "ValueError", "operands could not be broadcast together"), node)
                    return False
                return args[0] == args[1]
            if short in ("shape", "ndim", "size") and args and isinstance(args[0], Sym) and args[0].op == "arr":
                return Sym(short, self._len(args[0]))
            if short == "all" and isinstance(args[0], bool):
                return args[0]
            return super().ext_call(name, args, kwargs, node)

    ubase = dict(dim=2, crs=None, order="C", loc="CELLS", shape=(5,))
    worst = None
    # a mesh with as many points as cells: the data shape alone cannot tell point data from cell data
    for name, delta, check_loc, want in (
        ("identical", {}, True, True), ("different dimension", {"dim": 3}, True, False), ("different CRS", {"crs": "EPSG:4326"}, True, False),
        ("different order", {"order": "F"}, True, False),
        ("point data vs cell data of a mesh with equally many points and cells", {"loc": "POINTS"}, True, False),
        ("different data location, location not to be checked", {"loc": "POINTS"}, False, True),
        ("different data shape", {"shape": (7,)}, True, False), ("different points", {"points": "P2"}, True, False),
        ("different cells", {"cells": "C2"}, True, False), ("different cell types", {"types": "T2"}, True, False),
        ("another mesh with as many cells but more points (cell data)", {"points": "P2@9", "cells": "C2", "types": "T2"}, True, False),
        ("another mesh with as many points but more cells, location not to be checked", {"cells": "C2@8", "types": "T2@8"}, False, False),
    ):
        it = _MeshCompat(repo)
        try:
            got = it.run(fu, [mesh(**{**ubase, **delta})], {"check_location": check_loc}, self_obj=mesh(**ubase))
        except Raised as r:
            worst = worst or (f"{name}: compatible_with raises {r.name} instead of answering False: connect() ends in that error where an incompatible grid has "
                              "to be rejected with a metadata error")
            continue
        except (Undecided, AnalysisError) as exc:
            # (a construct outside the vocabulary of this table is not a verdict on the code)
            sink.unknown("R15", "compat-table:UnstructuredGrid", fu, f"{name}: outside vocabulary: {exc}")
            return
        if bool(got) != want:
            worst = worst or f"{name}: compatible_with is {bool(got)}, must be {want}"
    sink.check(worst is None, "R15", "compat-table:UnstructuredGrid", fu,
               ok="compatible iff same dimension, CRS, order, data location (when checked), data shape, points, cells and cell types", bad=worst or "")
    # __eq__ additionally requires the same layout
    eq = repo.resolve(sg, "__eq__", "method")
    worst = None
    for name, inc_a, inc_b, ra, rb, want in (("same layout", [True, False], [True, False], False, False, True),
                                             ("other axis direction", [True, False], [False, True], False, False, False),
                                             ("both decreasing vs one decreasing", [False, False], [True, False], False, False, False),
                                             ("other axis order", [True, True], [True, True], False, True, False)):
        a, b = grid(**{**base, "rev": ra}), grid(**{**base, "rev": rb, "shape": (2, 3) if rb != ra else (3, 2)})
        a.fields["axes_increase"], b.fields["axes_increase"] = inc_a, inc_b
        try:
            got = _GridCompat(repo).run(eq, [b], self_obj=a)
        except (Raised, Undecided) as exc:
            worst = worst or f"{name}: {exc}"
            continue
        if bool(got) != want:
            worst = worst or f"{name}: == is {bool(got)}, must be {want}"
    sink.check(worst is None, "R15", "layout-equality:StructuredGrid", eq, ok="== holds only for compatible grids with identical axis order and directions",
               bad=(worst or "") + ": layout-sensitive equality decides whether data is passed through untransformed")


def r15gl_without_location(repo, sink):
    """StructuredGrid.compatible_with(other, check_location=False): same node coordinates or not (public API; C15 only)."""
    sg = repo.cls("StructuredGrid")
    f = repo.resolve(sg, "compatible_with", "method")

    def grid(dim=2, crs=None, loc="CELLS", rev=False, shape=(3, 2), label="grid", axes=None):
        o = Obj(cls=sg, label=label)
        ax = axes or [Vec((0, 1, 2, 4)), Vec((0, 1, 3)), Vec((0, 5))]
        o.fields.update(dim=dim, crs=crs, data_location=Sym("enum", "Location", loc), axes_reversed=rev,
                        data_shape=shape, axes=ax[:dim])
        return o

    base = dict(dim=2, crs=None, loc="CELLS", rev=False, shape=(3, 2))
    # the same question with the data location left out of the comparison (check_location=False): same node coordinates or not
    cases2 = [
        ("identical", {}, True),
        ("other data location (and therefore another data shape)", {"loc": "POINTS", "shape": (4, 3)}, True),
        ("different CRS", {"crs": "EPSG:4326"}, False),
        ("only the x coordinates differ", {"axes": [Vec((1, 2, 3, 5)), Vec((0, 1, 3))]}, False),
        ("one more node in x", {"axes": [Vec((0, 1, 2, 3, 4)), Vec((0, 1, 3))], "shape": (4, 2)}, False),
        ("one node less in y", {"axes": [Vec((0, 1, 2, 4)), Vec((0, 1))], "shape": (3, 1)}, False),
    ]
    worst = None
    for name, delta, want in cases2:
        it = _GridCompat(repo, True)
        try:
            got = it.run(f, [grid(**{**base, **delta})], {"check_location": False}, self_obj=grid(**base))
        except Raised as exc:
            worst = worst or f"{name}: compatible_with(other, check_location=False) raises {exc.name} instead of answering {want}"
            continue
        except Undecided as exc:
            worst = worst or f"{name}: {exc}"
            continue
        if bool(got) != want:
            worst = worst or f"{name}: compatible_with(other, check_location=False) is {bool(got)}, must be {want}"
    sink.check(worst is None, "R15gl", "compat-table:StructuredGrid:without-location", f,
               ok="without the location: compatible iff same dimension, CRS and node coordinates; grids of different sizes are answered with False",
               bad=worst or "")



# =========================================================================== R15c
def r15c_copy_only(repo, sink):
    """copy_with without the mask-normalisation cases (for properties whose statement is about grids, not masks)."""
    r15c_copy_with(repo, sink, parts=("copy",))


def r15c_copy_with(repo, sink, parts=("copy", "masks")):
    """Info.copy_with: with use_none=False a None argument never overwrites a set field -
    for time, grid, mask, units and every other metadata key alike (Input.exchange_info
    merges delivered and requested info through it)."""
    ic = repo.cls("Info")
    f = repo.resolve(ic, "copy_with", "method")

    class _I(FinamInterp):
        def construct(self, cls, args, kwargs, node):
            if cls.name == "Info":
                # the copy: the class's own methods (helpers of copy_with) run on it, its four public properties are plain fields
                o = Obj(cls=cls, label="Info:copy")
                o.fields.update(time=kwargs.get("time"), grid=kwargs.get("grid"), mask=kwargs.get("mask"), meta=dict(kwargs.get("meta") or {}))
                return o
            return super().construct(cls, args, kwargs, node)

        def get_attr(self, obj, attr, node, mod):
            if isinstance(obj, Obj) and obj.label.startswith("Info") and attr in obj.fields:
                return obj.fields[attr]
            return super().get_attr(obj, attr, node, mod)

        def store_attr(self, obj, attr, v, node):
            if isinstance(obj, Obj) and obj.label == "Info:copy" and attr in ("time", "grid", "mask", "meta"):
                obj.fields[attr] = v  # (validation by the setters: table `setters` / R15 mask cases)
                return None
            return super().store_attr(obj, attr, v, node)

        def ext_call(self, name, args, kwargs, node):
            if name == "copy.copy":
                return dict(args[0]) if isinstance(args[0], dict) else args[0]
            if name.endswith(".Unit"):
                return Sym("unit", args[0])
            return super().ext_call(name, args, kwargs, node)

    worst = None
    base = {"time": Sym("T"), "grid": Sym("G"), "mask": Sym("M"), "meta": {"units": Sym("unit", "m"), "extra": Sym("E")}}
    for use_none in (True, False):
        for key in ("time", "grid", "mask", "units", "extra", "new_key"):
            for val in (None, Sym("NEW")):
                me = Obj(cls=ic, label="Info")
                me.fields.update(time=base["time"], grid=base["grid"], mask=base["mask"], meta=dict(base["meta"]),
                                 _time=base["time"], _grid=base["grid"], _mask=base["mask"])
                it = _I(repo)
                try:
                    got = it.run(f, [], {"use_none": use_none, key: val}, self_obj=me)
                except (Raised, Undecided) as exc:
                    raise AnalysisError(f"Info.copy_with outside vocabulary: {exc}") from exc
                cur = got.fields[key] if key in ("time", "grid", "mask") else got.fields["meta"].get(key)
                old = base[key] if key in ("time", "grid", "mask") else base["meta"].get(key)
                if val is None and not use_none:
                    want = old
                elif key == "units" and val is not None:
                    want = Sym("unit", val)
                else:
                    want = val
                if cur != want:
                    worst = worst or (f"copy_with(use_none={use_none}, {key}={val!r}) yields {key}={cur!r}, expected {want!r}"
                                      + (": an unset value of the consumer overwrites what the producer delivered" if val is None and not use_none else ""))
                if me.fields["meta"] != base["meta"]:
                    worst = worst or "copy_with modifies the original info's metadata (shared dict)"
    sink.check(worst is None, "R15", "copy_with-table", f,
               ok="copy_with overrides exactly the given fields; with use_none=False unset values never overwrite; the original stays untouched",
               bad=worst or "")
    # the merge of Input.exchange_info: the delivered info (with a fixed mask, stored in the producer's layout) is copied onto the
    # consumer's compatible but differently laid-out grid.  This must go through - the real constructor and setters of Info run here.
    class _R(FinamInterp):
        def isinstance(self, v, klass, node):
            from ..loader import Class
            if isinstance(klass, Class) and klass.name == "GridBase":
                return isinstance(v, Obj) and v.label.startswith("grid")
            return super().isinstance(v, klass, node)

        def ext_isinstance(self, v, name, node):
            if name.endswith("datetime"):
                return isinstance(v, Sym) and v.op == "time"
            if name.split(".")[-1] in ("ndarray", "MaskedArray") and isinstance(v, Sym) and v.op in ("maskarr", "rawmask"):
                if v.op == "maskarr":
                    return name.endswith("ndarray")
                return {"ndarray": v.args[1] in ("int-array", "bool-array", "masked-int-array"), "MaskedArray": v.args[1] == "masked-int-array"}[name.split(".")[-1]]
            if name in ("list", "tuple") and isinstance(v, Sym) and v.op in ("maskarr", "rawmask"):
                return v.op == "rawmask" and v.args[1] == name
            return super().ext_isinstance(v, name, node)

        def call_hook(self, fv, args, kwargs, node, mod):
            if isinstance(fv, Closure) and getattr(fv.func, "name", "") == "mask_specified":
                return isinstance(args[0], Sym) and args[0].op in ("maskarr", "rawmask")
            return super().call_hook(fv, args, kwargs, node, mod)

        def get_attr(self, obj, attr, node, mod):
            if isinstance(obj, Obj) and obj.label.startswith("grid") and attr in obj.fields:
                return obj.fields[attr]
            if isinstance(obj, Sym) and obj.op == "ext" and obj.args[0] in ("np.ma", "numpy.ma") and attr == "nomask":
                return NOMASK
            return super().get_attr(obj, attr, node, mod)

        def ext_call(self, name, args, kwargs, node):
            short = name.split(".")[-1]
            if name == "copy.copy":
                return dict(args[0]) if isinstance(args[0], dict) else args[0]
            if short == "Unit":
                return Sym("unit", args[0])
            if short == "make_mask":
                if isinstance(args[0], Sym) and args[0].op == "rawmask":
                    return Sym("maskarr", args[0].args[0], args[0].args[2])  # the boolean mask array of the same truth values
                return args[0]
            if short in ("asarray", "array", "asanyarray") and isinstance(args[0], Sym) and args[0].op == "rawmask":
                dt = kwargs.get("dtype", args[1] if len(args) > 1 else None)
                if isinstance(dt, Sym) and dt.op == "ext" and dt.args[0].split(".")[-1] in ("bool", "bool_"):
                    return Sym("maskarr", args[0].args[0], args[0].args[2])
                return Sym("rawmask", args[0].args[0], "int-array" if args[0].args[1] != "bool-array" else "bool-array", args[0].args[2])
            if short == "shape" and isinstance(args[0], Sym) and args[0].op in ("maskarr", "rawmask"):
                return args[0].args[-1]
            if short in ("array_equal", "array_equiv"):
                return tuple(args[0]) == tuple(args[1]) if all(isinstance(a, (tuple, list)) for a in args[:2]) else args[0] == args[1]
            return super().ext_call(name, args, kwargs, node)

        def construct(self, cls, args, kwargs, node):
            if cls.name == "Info":
                o = Obj(cls=cls, label="Info")
                self.call_func(Closure(self.repo.resolve(cls, "__init__", "method"), self_obj=o), list(args), dict(kwargs), node)
                return o
            return super().construct(cls, args, kwargs, node)

    g1, g2 = Obj(label="grid:producer-layout"), Obj(label="grid:consumer-layout")
    g1.fields.update(data_shape=(3, 2))
    g2.fields.update(data_shape=(2, 3))
    why = None
    try:
        it = _R(repo)
        src = it.construct(ic, [], {"time": Sym("time", "T"), "grid": g1, "mask": Sym("maskarr", "M", (3, 2)), "units": "m"}, None)
        merged = it.run(f, [], {"use_none": False, "time": Sym("time", "T2"), "grid": g2, "units": None}, self_obj=src)
        mg = it.attr(merged, "grid", None, None)  # (public properties, however the class defines them)
        mm = it.attr(merged, "mask", None, None)
        if mg is not g2 or mm != Sym("maskarr", "M", (3, 2)):
            why = f"the copy carries grid {mg!r} and mask {mm!r}; expected the consumer's grid and the delivered mask"
    except Raised as r:
        why = (f"copying a delivered info with a fixed mask onto the consumer's compatible grid of the other layout raises {r.name}: "
               "compatible grids with different layouts can no longer be linked when the producer declares a mask")
    except (Undecided, AnalysisError) as exc:
        sink.unknown("R15", "copy_with-relayout", f, f"outside vocabulary: {exc}")
        why = "skip"
    if why != "skip":
        sink.check(why is None, "R15", "copy_with-relayout", f,
                   ok="a delivered info with a fixed mask can be merged onto a compatible grid of another layout", bad=why or "")
    # a copy of an info (copy.copy / Info.copy()) announces the same mask: flexible, none or the fixed one
    if "masks" in parts:
        cp = repo.resolve(ic, "__copy__", "method") or repo.resolve(ic, "copy", "method")
        FLEX_, NONE__ = Sym("enum", "Mask", "FLEX"), Sym("enum", "Mask", "NONE")
        why_c = None
        try:
            for kname, mk_ in (("Mask.FLEX", FLEX_), ("Mask.NONE", NONE__), ("a fixed mask", Sym("maskarr", "M", (3, 2)))):
                it = _R(repo)
                o = it.construct(ic, [], {"time": Sym("time", "T"), "grid": g1, "mask": mk_, "units": "m"}, None)
                before = it.attr(o, "mask", None, None)
                c2 = it.run(cp, [], self_obj=o)
                after = it.attr(c2, "mask", None, None)
                if c2 is o:
                    why_c = why_c or "the copy is the object itself"
                elif after != before or it.attr(c2, "grid", None, None) is not g1 or it.attr(c2, "time", None, None) != Sym("time", "T"):
                    why_c = why_c or (f"the copy of an info with mask {kname} announces mask {after!r} (grid {it.attr(c2, 'grid', None, None)!r}): a consumer that built its "
                                      "request with .copy() accepts producers it excluded and receives masked arrays it declared not to handle")
        except Raised as r:
            why_c = f"copying an info raises {r.name}"
        except (Undecided, AnalysisError) as exc:
            sink.unknown("R15", "copy-keeps-mask", cp or f, f"outside vocabulary: {exc}")
            why_c = "skip"
        if why_c != "skip":
            sink.check(why_c is None, "R15", "copy-keeps-mask", cp or f, ok="a copied info announces the same mask (flexible / none / fixed), grid and time", bad=why_c or "")
    # whatever form a fixed mask is given in (0/1 integers, a list, a masked array ...), the info keeps it as a boolean mask array:
    # the comparisons of masks (equal, sub-mask) only recognise those
    for kind in (("int-array", "list", "masked-int-array", "bool-array") if "masks" in parts else ()):
        try:
            it = _R(repo)
            raw = Sym("rawmask", "M", kind, (3, 2))
            o = it.construct(ic, [], {"time": Sym("time", "T"), "grid": g1, "mask": raw, "units": "m"}, None)
            mm = it.attr(o, "mask", None, None)
            o2 = it.construct(ic, [], {"time": Sym("time", "T"), "grid": g1, "units": "m"}, None)
            it.store_attr(o2, "mask", raw, None)
            mm2 = it.attr(o2, "mask", None, None)
        except Raised as r:
            sink.bad("R15", f"mask-normalised:{kind}", f, f"an Info with a fixed mask given as {kind} cannot be built: {r.name}")
            continue
        except (Undecided, AnalysisError) as exc:
            sink.unknown("R15", f"mask-normalised:{kind}", f, f"outside vocabulary: {exc}")
            continue
        want = Sym("maskarr", "M", (3, 2))
        okv = [want] + ([raw] if kind == "bool-array" else [])
        sink.check(mm in okv and mm2 in okv, "R15", f"mask-normalised:{kind}", f,
                   ok=f"a fixed mask given as {kind} is kept as a boolean mask array (constructor and setter)",
                   bad=f"a fixed mask given as {kind} is stored as {mm!r} (constructor) / {mm2!r} (setter), not as a boolean mask array: masks_equal / sub-mask tests "
                       "recognise only boolean masks, so this info's mask equals no mask - not even itself - and a fixed-mask consumer refuses the very same mask")


# =========================================================================== R16u
class _InfoStub(Obj):
    """Info stand-in with copy_with semantics (R15c checks the real one)."""


def _stub(units, grid, extra=None, label="info"):
    o = _InfoStub(label=label)
    o.fields.update(time=Sym("T_" + label), grid=grid, mask=Sym("M_" + label), meta={"units": units, **(extra or {})}, units=units)
    return o


class _GetInfoInterp(FinamInterp):
    def __init__(self, repo, delivered):
        super().__init__(repo)
        self.delivered = delivered
        self.requests = []

    def decide(self, cond, node):
        if isinstance(cond, Sym) and (str(cond.op).startswith("G_") or cond.op == "grid"):
            return True  # grid objects are truthy
        return super().decide(cond, node)

    def get_attr(self, obj, attr, node, mod):
        if isinstance(obj, _InfoStub):
            if attr == "copy_with":
                return Sym("copy_with", Ref(obj))
            if attr in obj.fields:
                return obj.fields[attr]
            if attr in obj.fields["meta"]:
                return obj.fields["meta"][attr]
        if isinstance(obj, Sym) and attr in ("units", "to_reduced_units"):
            return Sym("ufn", obj, attr) if attr == "to_reduced_units" else obj
        if isinstance(obj, Sym) and str(obj.op).startswith("G_") and attr == "crs":
            return None
        return super().get_attr(obj, attr, node, mod)

    def call_hook(self, fv, args, kwargs, node, mod):
        if isinstance(fv, Sym) and fv.op == "copy_with":
            src = fv.args[0].obj
            use_none = kwargs.pop("use_none", True) if isinstance(kwargs, dict) else True
            n = _InfoStub(label="copy")
            n.fields.update(time=src.fields["time"], grid=src.fields["grid"], mask=src.fields["mask"], meta=dict(src.fields["meta"]))
            for k, v in kwargs.items():
                if v is None and not use_none:
                    continue
                if k in ("time", "grid", "mask"):
                    n.fields[k] = v
                else:
                    n.fields["meta"][k] = v
            n.fields["units"] = n.fields["meta"].get("units")
            return n
        if isinstance(fv, Sym) and fv.op == "ufn":
            return fv.args[0]
        if isinstance(fv, Closure) and getattr(fv.func, "name", "") == "exchange_info" and fv.self_obj is not None:
            self.requests.append(args[0])
            return self.delivered
        if isinstance(fv, Closure) and getattr(fv.func, "name", "") in ("_create_transformer", "_update_grid_specs", "_check_and_set_out_mask"):
            return None
        return super().call_hook(fv, args, kwargs, node, mod)

    def construct(self, cls, args, kwargs, node):
        if cls.name in ("NoGrid", "UniformGrid"):
            return Sym("grid", cls.name)
        return super().construct(cls, args, kwargs, node)

    def ext_call(self, name, args, kwargs, node):
        if name.endswith(".Unit"):
            return Sym("unit", args[0])
        return super().ext_call(name, args, kwargs, node)

    def compare(self, op, left, right, node):
        if isinstance(op, (ast.Eq, ast.NotEq)) and isinstance(left, Sym) and isinstance(right, Sym):
            eq = left == right
            return eq if isinstance(op, ast.Eq) else not eq
        return super().compare(op, left, right, node)


def _mentions(v, atom):
    if v == atom:
        return True
    if isinstance(v, Sym):
        return any(_mentions(a, atom) for a in v.args)
    if isinstance(v, (tuple, list)):
        return any(_mentions(a, atom) for a in v)
    return False


def r16u_delivered_units(repo, sink):
    """The info an adapter delivers describes the data the adapter returns: its units derive
    from what the source delivered (possibly rewritten by the adapter), never from the
    consumer's request."""
    ad = repo.cls("Adapter")
    n = 0
    for c in repo.subclasses(ad):
        f = c.methods.get("_get_info")
        if f is None or repo.is_abstract(c) and c.name != "ARegridding":
            continue
        concrete = [k for k in repo.subclasses(c) if not repo.is_abstract(k)]
        if not concrete:
            continue
        k = concrete[0]
        u_req, u_in = Sym("u_requested"), Sym("u_delivered")
        req = _stub(u_req, Sym("G_req"), {"extra": Sym("x_req")}, "req")
        dlv = _stub(u_in, Sym("G_in"), {"extra": Sym("x_in")}, "dlv")
        me = Obj(cls=k, label=k.name)
        _seed_after_exchange(repo, k, me, {"per_time": True, "grid": Sym("G_req"), "func": None})
        me.fields.update(logger=Logger(label="logger"), grid=Sym("G_req"), input_grid=None, output_grid=None, output_mask=None,
                         input_mask=None, downstream_mask=None, transformer=None, input_meta=None, func=None)
        it = _GetInfoInterp(repo, dlv)
        try:
            out = it.run(f, [req], self_obj=me)
        except Raised as r:
            if r.name == "FinamMetaDataError":
                sink.ok("R16", f"delivered-units:{c.name}", f, "request refused on the abstract infos (metadata error): not decided here")
                continue
            sink.unknown("R16", f"delivered-units:{c.name}", f, f"raises {r.name}")
            continue
        except (Undecided, AnalysisError) as exc:
            sink.unknown("R16", f"delivered-units:{c.name}", f, f"_get_info outside vocabulary: {exc}")
            continue
        n += 1
        units = out.fields["meta"].get("units") if isinstance(out, _InfoStub) else None
        extra = out.fields["meta"].get("extra") if isinstance(out, _InfoStub) else None
        why = None
        if not isinstance(out, _InfoStub):
            why = f"returns {out!r}"
        elif _mentions(units, u_req):
            why = (f"delivers units {units!r} taken from the consumer's request: the adapter's data is still in the source's units, so the "
                   "values are relabelled instead of converted (1500 m arrive as 1500 km)")
        elif not (_mentions(units, u_in) or (isinstance(units, str) or units is None or (isinstance(units, Sym) and units.op == "unit"))):
            why = f"delivers units {units!r} that derive neither from the source's info nor from a constant"
        elif _mentions(extra, Sym("x_req")):
            why = "delivers extra metadata taken from the request instead of the source"
        sink.check(why is None, "R16", f"delivered-units:{c.name}", f, ok=f"delivered units {units!r} derive from the source's info", bad=why or "")
    sink.floor("R16", "_get_info overrides interpreted", n, 4)


def r35t_crs_direction(repo, sink):
    """Regridding between different coordinate reference systems: the target locations are looked up in the SOURCE's system, so
    the transformer handed to _do_transform goes from the target grid's CRS to the source grid's CRS."""
    if not repo.has_cls("ARegridding"):
        return
    a = repo.cls("ARegridding")
    concrete = [k for k in repo.subclasses(a) if not repo.is_abstract(k)]
    f = repo.resolve(a, "_get_info", "method")
    if not concrete or f is None:
        return

    class _G(_GetInfoInterp):
        def call_hook(self, fv, args, kwargs, node, mod):
            if isinstance(fv, Closure) and getattr(fv.func, "name", "") in ("_update_grid_specs", "_check_and_set_out_mask"):
                return None
            if isinstance(fv, Closure) and getattr(fv.func, "name", "") == "_create_transformer":
                return self.call_func(fv, args, kwargs, node)  # the real helper, with pyproj as uninterpreted terms
            return super().call_hook(fv, args, kwargs, node, mod)

        def get_attr(self, obj, attr, node, mod):
            if isinstance(obj, Sym) and str(obj.op).startswith("G_") and attr == "crs":
                return Sym("crs_of", obj)
            return super().get_attr(obj, attr, node, mod)

        def ext_call(self, name, args, kwargs, node):
            if name.endswith("CRS"):
                return args[0]
            if name.endswith("from_crs"):
                return Sym("transformer", args[0], args[1])
            return super().ext_call(name, args, kwargs, node)

    k = concrete[0]
    req = _stub(Sym("u_requested"), Sym("G_req"), {}, "req")
    dlv = _stub(Sym("u_delivered"), Sym("G_in"), {}, "dlv")
    me = Obj(cls=k, label=k.name)
    me.fields.update(logger=Logger(label="logger"), input_grid=None, output_grid=None, output_mask=None, input_mask=None, downstream_mask=None,
                     _is_initialized=False, transformer=None, input_meta=None, _out_mask_checked=False)
    it = _G(repo, dlv)
    try:
        it.run(f, [req], self_obj=me)
    except (Raised, Undecided, AnalysisError) as exc:
        sink.unknown("R35", "crs-direction", f, f"_get_info outside vocabulary: {exc}")
        return
    tr = me.fields.get("transformer")
    want = Sym("transformer", Sym("crs_of", Sym("G_req")), Sym("crs_of", Sym("G_in")))
    sink.check(tr == want, "R35", "crs-direction", f,
               ok="target locations are transformed from the target grid's CRS into the source grid's CRS before the neighbour search",
               bad=f"the coordinate transformer is {tr!r}; the target locations must be brought from the target's CRS into the source's CRS "
                   "(the other direction places every target far outside the source grid)")


# =========================================================================== R37p
class _MArr(Obj):
    """Array stand-in: concrete small shape, optional mask with an alignment tag."""


def _marr(shape, masked=None, label="data"):
    o = _MArr(label=label)
    size = 1
    for s_ in shape:
        size *= s_
    o.fields.update(shape=tuple(shape), size=size, ndim=len(shape), masked=masked)
    return o


class _PrepMaskInterp(FinamInterp):
    """prepare() on plain arrays: tracks how the info's mask is aligned with the data.
    Axiom (numpy): np.ma.array(data, mask=m) with m.shape != data.shape but equal size
    reshapes m in C order; reshaping a masked array with order=O reshapes data and mask
    with O."""

    def __init__(self, repo, grid_order, quantified=False):
        super().__init__(repo)
        self.grid_order = grid_order
        self.quantified = quantified

    def call_hook(self, fv, args, kwargs, node, mod):
        if isinstance(fv, Closure):
            n = getattr(fv.func, "name", "")
            if n == "is_quantified":
                return self.quantified and isinstance(args[0], _MArr)
            if n in ("compatible_units", "equivalent_units"):
                return True
        if isinstance(fv, Sym) and fv.op == "reshape_of":
            src = fv.args[0].obj
            shp = tuple(args[0]) if isinstance(args[0], (list, tuple)) else (args[0],)
            order = kwargs.get("order", "C")
            m = src.fields["masked"]
            if m is not None:
                kind, mshape = m
                if kind == "C-raveled-from":
                    # data values are placed with `order`, mask entries were flattened with C
                    m = ("exact", mshape) if order == "C" else ("scrambled", mshape, order)
                elif kind == "raveled-with-order":
                    m = ("exact", mshape) if order == m[2] else ("scrambled", mshape, order)
            n = _marr(shp, m, "reshaped")
            return n
        return super().call_hook(fv, args, kwargs, node, mod)

    def get_attr(self, obj, attr, node, mod):
        if isinstance(obj, _MArr) and attr == "reshape":
            return Sym("reshape_of", Ref(obj))
        if isinstance(obj, _MArr) and attr in ("copy", "to"):
            return Sym("ident", Ref(obj))
        if isinstance(obj, _MArr) and attr == "magnitude":
            return obj
        if isinstance(obj, _MArr) and attr == "units":
            return Sym("u")
        if isinstance(obj, Obj) and obj.label in ("info", "grid") and attr in obj.fields:
            return obj.fields[attr]
        return super().get_attr(obj, attr, node, mod)

    def isinstance(self, v, klass, node):
        from ..loader import Class
        if isinstance(klass, Class) and isinstance(v, Obj) and v.label == "grid":
            return klass.name in ("Grid", "GridBase")
        if isinstance(klass, Sym) and klass.op == "ext" and klass.args[0].endswith("ndarray"):
            return isinstance(v, _MArr)
        return super().isinstance(v, klass, node)

    def ext_call(self, name, args, kwargs, node):
        short = name.split(".")[-1]
        if short == "isarray" and "ma" in name:
            return isinstance(args[0], _MArr) and args[0].fields["masked"] is not None
        if name.endswith("ma.array"):
            data = kwargs.get("data", args[0] if args else None)
            mask = kwargs.get("mask")
            if not isinstance(data, _MArr):
                raise AnalysisError("np.ma.array on a non-array")
            if mask is None or mask is False or (isinstance(mask, Sym) and mask.op == "ext" and mask.args[0].endswith("nomask")):
                return _marr(data.fields["shape"], None, "masked-without-mask")
            mshape = mask.fields["shape"] if isinstance(mask, _MArr) else None
            if mshape is None:
                raise AnalysisError("mask of unknown shape")
            dshape = data.fields["shape"]
            lead = tuple(x for x in dshape)
            while lead and lead[0] == 1 and len(lead) > len(mshape):
                lead = lead[1:]
            if tuple(mshape) == tuple(dshape) or lead == tuple(mshape):
                tag = ("exact", tuple(mshape))
            elif mask.fields["size"] == data.fields["size"]:
                flat_in_grid_order = mask.fields.get("raveled_with")
                if flat_in_grid_order is not None and len(dshape) > 1:
                    # numpy.ma re-expands a flat mask onto non-flat data with a C-order reshape
                    oshape = tuple(mask.fields.get("orig_shape", mshape))
                    tag = ("exact", oshape) if flat_in_grid_order == "C" else ("scrambled", oshape, "C")
                elif flat_in_grid_order is not None:
                    tag = ("raveled-with-order", tuple(mask.fields.get("orig_shape", mshape)), flat_in_grid_order)
                else:
                    tag = ("C-raveled-from", tuple(mshape))
            else:
                self.on_raise(Sym("exc", "MaskError", "mask and data not compatible"), node)
            return _marr(dshape, tag, "masked")
        if short == "ravel" and isinstance(args[0], _MArr):
            order = kwargs.get("order", args[1] if len(args) > 1 else "C")
            n = _marr((args[0].fields["size"],), None, "raveled-mask")
            n.fields["raveled_with"] = order
            n.fields["orig_shape"] = args[0].fields["shape"]
            return n
        if short in ("ndim",) and isinstance(args[0], _MArr):
            return args[0].fields["ndim"]
        if short in ("shape",) and isinstance(args[0], _MArr):
            return args[0].fields["shape"]
        if short == "expand_dims" and isinstance(args[0], _MArr):
            return _marr((1,) + tuple(args[0].fields["shape"]), args[0].fields["masked"], "expanded")
        if short == "Quantity":
            return args[0]
        if short == "asarray":
            return args[0]
        return super().ext_call(name, args, kwargs, node)

    def call(self, fv, args, kwargs, node, mod):
        if isinstance(fv, Sym) and fv.op == "ident":
            return fv.args[0].obj
        return super().call(fv, args, kwargs, node, mod)

    def compare(self, op, left, right, node):
        if isinstance(op, (ast.Eq, ast.NotEq)) and isinstance(left, tuple) and isinstance(right, tuple):
            eq = tuple(left) == tuple(right)
            return eq if isinstance(op, ast.Eq) else not eq
        return super().compare(op, left, right, node)


def r37p_prepare_mask(repo, sink):
    """prepare() applies exactly info.mask: for data given in the grid's shape, with the time
    axis, or flat in the grid's memory order, every mask entry must end up on the cell it
    belongs to."""
    f = repo.func("src/finam/data/tools/core.py", "prepare")
    worst = None
    n = 0
    for order, quantified in itertools.product(("C", "F"), (False, True)):
        for shape in ((3, 2), (1, 3, 2), (6,)):
            n += 1
            grid = Obj(label="grid")
            grid.fields.update(data_shape=(3, 2), data_size=6, order=order)
            mask = _marr((3, 2), None, "info.mask")
            info = Obj(label="info")
            info.fields.update(units=Sym("u"), is_masked=True, mask=mask, fill_value=None, grid=grid)
            it = _PrepMaskInterp(repo, order, quantified)
            try:
                got = it.run(f, [_marr(shape), info])
            except Raised as r:
                worst = worst or f"{'quantified' if quantified else 'plain'} data of shape {shape} on a {order}-ordered grid with a fixed (3, 2) mask: raises {r.name}"
                continue
            except (Undecided, AnalysisError) as exc:
                sink.unknown("R37", "prepare-mask-alignment", f, f"prepare outside vocabulary: {exc}")
                return
            m = got.fields.get("masked") if isinstance(got, _MArr) else None
            ok = m is not None and (m[0] == "exact" or (m[0] == "raveled-with-order" and m[2] == order and got.fields["shape"] == (1, 3, 2)))
            if m is not None and m[0] == "raveled-with-order":
                # flattened with the grid order, then reshaped with the grid order: aligned
                ok = m[2] == order
            if got is not None and isinstance(got, _MArr) and got.fields["shape"] != (1, 3, 2):
                ok = False
            if not ok:
                how = {"scrambled": ("a mask flattened in the grid's order is re-expanded onto non-flat data by numpy.ma with a C-order reshape"
                                     if len(shape) > 1 else "the mask was flattened in C order by numpy.ma but the data is reshaped in the grid's order"),
                       "C-raveled-from": "the mask stays flattened in C order"}.get(m[0] if m else "", "no mask applied")
                worst = worst or (f"{'quantified' if quantified else 'plain'} data of shape {shape} on a {order}-ordered grid with a fixed (3, 2) mask: the applied mask is not info.mask "
                                  f"({how}): masked and unmasked cells are permuted")
    sink.check(worst is None, "R37", "prepare-mask-alignment", f,
               ok=f"{n} cases (grid shape, with time axis, flat; C and F order; plain and quantified data): the applied mask is exactly info.mask", bad=worst or "")
