"""Rule families. Each rule is a function `rule(repo, sink)` that appends obligations."""
