"""Semantic (decision-table) versions of the spill rules: R23s finalize removes every
remaining spill file, R24s writer/reader of masked payloads and label units, R25s
threshold, file naming and accounting of `_pack`."""
from __future__ import annotations

import ast

from ..absbase import FinamInterp, Logger, Order
from ..astq import U, calls, fn_walk, self_attr
from ..interp import Closure, Obj, Raised, Sym, Undecided
from ..loader import AnalysisError
from .buffer import BufInterp, P, T, _adapter_obj, _fresh, _output_obj, make_order, Q
from .spill import _get_info_changes_units, _pack_sites, owners


# =========================================================================== R23s
def r23s_finalize(repo, sink):
    """Abstract run of the resolved finalize() of every class owning a spill container, on a
    buffer holding file and RAM entries: exactly the file entries are removed."""
    _conts, own = owners(repo)
    iad = repo.cls("IAdapter")
    n = 0
    for c, attr in own:
        if repo.is_abstract(c):
            continue
        n += 1
        entry = repo.resolve(c, "finalize", "method")
        if entry is None:
            sink.bad("R23", f"finalize-removes-spill-files:{c.name}.{attr}", (c.file, c.node.lineno), f"{c.name} has no finalize()")
            continue
        kinds = ["file", "ram", "file"]
        if repo.is_subclass(c, iad):
            o = _adapter_obj(repo, c.name, 3, kinds, extra={"step": Sym("step")})
        else:
            o = _output_obj(repo, 3, kinds, {Obj(label="A"): None})
            o.cls = c
        it = BufInterp(repo, make_order(3, {Q: ("eq", 0)}))
        try:
            it.run(entry, [], self_obj=o)
        except Raised as r:
            sink.bad("R23", f"finalize-removes-spill-files:{c.name}.{attr}", entry, f"finalize() raises {r.name} on a buffer with spilled entries")
            continue
        except Undecided as u:
            raise AnalysisError(f"{c.name}.finalize: undecidable {u}") from u
        removed = sorted(e[1].args[0] for e in it.effects if e[0] == "remove" and isinstance(e[1], Sym) and e[1].op == "P")
        other = [e for e in it.effects if e[0] == "remove" and not (isinstance(e[1], Sym) and e[1].op == "P")]
        ok = removed == [0, 2] and not other
        path = "Composition._finalize_components -> " + ("ada.finalize()" if repo.is_subclass(c, iad) else "comp.finalize() -> out.finalize()")
        sink.check(ok, "R23", f"finalize-removes-spill-files:{c.name}.{attr}", entry,
                   ok=f"{path}: both spill files of self.{attr} removed, RAM entry untouched",
                   bad=f"{path} -> {entry.qualname}: with spilled entries 0 and 2 in self.{attr}, finalize removes files of entries {removed}"
                       f"{' and ' + repr(other) if other else ''}: spill files stay behind after the composition was finalized")
    sink.floor("R23", "classes owning a spill container", n, 8)
    # reading before finalizing: a file entry that was read (static output: served again and again; dynamic output:
    # served, older entries discarded) is still removed - each spill file exactly once over get_data + finalize
    out = repo.cls("Output")
    gd, fin = repo.resolve(out, "get_data", "method"), repo.resolve(out, "finalize", "method")
    for name, static, kinds, req in (("static", True, ["file"], None), ("dynamic", False, ["file", "ram", "file"], ("eq", 2))):
        tgt = Obj(label="A")
        o = _output_obj(repo, len(kinds), kinds, {tgt: None}, static=static)
        it = BufInterp(repo, make_order(len(kinds), {Q: req or ("eq", 0)}))
        try:
            for _ in range(2 if static else 1):
                it.run(gd, [Q, tgt], self_obj=o)
            it.run(fin, [], self_obj=o)
        except Raised as r:
            sink.bad("R23", f"read-then-finalize:{name}", gd, f"get_data / finalize raise {r.name} on spilled entries")
            continue
        except (Undecided, AnalysisError) as exc:
            sink.unknown("R23", f"read-then-finalize:{name}", gd, f"outside vocabulary: {exc}")
            continue
        removed = sorted(e[1].args[0] for e in it.effects if e[0] == "remove" and isinstance(e[1], Sym) and e[1].op == "P")
        want = [i for i, k in enumerate(kinds) if k == "file"]
        sink.check(removed == want, "R23", f"read-then-finalize:{name}", fin,
                   ok=f"spill files of entries {want} are removed exactly once after the data was read",
                   bad=f"{name} output with spilled entries {want}: after reading and finalizing, files of entries {removed} were removed "
                       "(a file that was read must still be cleaned up, and only once)")


# =========================================================================== R24s
class _PackInterp(BufInterp):
    def __init__(self, repo, order, payload_kind):
        super().__init__(repo, order)
        self.kind = payload_kind  # plain | masked | masked-empty
        self.writes = []
        self.joins = []

    def call_hook(self, fv, args, kwargs, node, mod):
        if isinstance(fv, Sym) and fv.op == "method":
            if fv.args[1] == "dump":
                self.writes.append(("dump", args[0], fv.args[0]))
                return None
        # do NOT intercept _pack/_unpack here: they are the functions under analysis
        if isinstance(fv, Closure) and getattr(fv.func, "name", "") in ("_pack", "_unpack") and fv.self_obj is not None:
            return self.call_func(fv, args, kwargs, node)
        return super().call_hook(fv, args, kwargs, node, mod)

    def decide(self, cond, node):
        if cond == Sym("location"):
            return True  # a configured directory name is a non-empty string
        return super().decide(cond, node)

    def get_attr(self, obj, attr, node, mod):
        if isinstance(obj, Obj) and obj.label in ("out_info", "in_info", "info") and attr not in obj.fields:
            # the slot's info leaves the mask open (Mask.FLEX, the default): payloads may be masked or not
            if attr == "is_masked":
                return False
            if attr == "mask":
                return Sym("enum", "Mask", "FLEX")
        if isinstance(obj, Sym) and obj.op == "payload":
            if attr == "nbytes":
                return Sym("size")
            if attr == "magnitude":
                return Sym("mag", self.kind)
            if attr == "units":
                return Sym("u_payload")
        if isinstance(obj, Sym) and obj.op == "prepared" and attr in ("magnitude", "units"):
            return Sym("attr", obj, attr)
        if isinstance(obj, Sym) and obj.op == "qty" and attr == "magnitude":
            return obj.args[0]
        if isinstance(obj, Sym) and obj.op == "qty" and attr == "units":
            return obj.args[1]
        if isinstance(obj, Sym) and obj.op == "mag" and attr == "dump":
            return Sym("method", obj, "dump")
        if isinstance(obj, Sym) and obj.op == "mag" and attr in ("mask", "data", "fill_value"):
            return Sym("attr", obj, attr)
        return super().get_attr(obj, attr, node, mod)

    def ext_call(self, name, args, kwargs, node):
        short = name.split(".")[-1]
        if name == "os.path.join":
            self.joins.append(tuple(args))
            return Sym("path", *args)
        if name == "os.path.dirname":
            p = args[0]
            if isinstance(p, Sym) and p.op == "path":
                head = p.args[0] if len(p.args) == 2 else Sym("path", *p.args[:-1])
                return "" if head is None else head
            if isinstance(p, str):
                import os.path as _osp
                return _osp.dirname(p)
        if name in ("os.makedirs", "os.mkdir"):
            # (the directory of a file in the working directory is the empty string, which the os refuses)
            if args[0] == "" or args[0] is None:
                raise Raised(Sym("exc", "FileNotFoundError" if args[0] == "" else "TypeError"), node)
            self.__dict__.setdefault("dirs_made", []).append(args[0])
            return None
        if short in ("isMaskedArray", "isMA", "isarray") and "ma" in name:
            return isinstance(args[0], Sym) and args[0].op == "mag" and args[0].args[0] in ("masked", "masked-empty")
        if short == "is_masked" and "ma" in name:
            return isinstance(args[0], Sym) and args[0].op == "mag" and args[0].args[0] == "masked"
        if short in ("getmaskarray", "getdata", "getmask"):
            return Sym(short, args[0])
        if short in ("save", "savez", "savez_compressed"):
            self.writes.append((short, args[0], tuple(args[1:]) + tuple(kwargs.values())))
            return None
        if name in ("pickle.dump",):
            self.writes.append(("pickle", args[1], args[0]))
            return None
        if short == "load":
            return Sym("loaded", args[0], kwargs.get("allow_pickle", False))
        if short in ("asarray", "array", "ascontiguousarray", "asfarray") and "ma" not in name.split(".")[:-1] and args and _find(args[0], "loaded") is not None:
            # numpy's plain conversions return the bare buffer of a masked array (np.ma.asarray / np.asanyarray keep it)
            return Sym("bare", args[0])
        if short in ("asanyarray",) or (short in ("asarray", "array") and "ma" in name.split(".")[:-1]):
            return args[0]
        if short == "Quantity":
            return Sym("qty", args[0], args[1])
        return super().ext_call(name, args, kwargs, node)

    def isinstance(self, v, klass, node):
        if isinstance(klass, Sym) and klass.op == "ext" and klass.args[0].endswith("MaskedArray"):
            return isinstance(v, Sym) and v.op == "mag" and v.args[0] in ("masked", "masked-empty")
        return super().isinstance(v, klass, node)

    def ext_isinstance(self, v, name, node):
        if name == "str":
            return isinstance(v, str) or (isinstance(v, Sym) and v.op in ("file", "fstr", "str", "path"))
        return super().ext_isinstance(v, name, node)


def spill_roles(repo, cname):
    """Names of the attributes in which class `cname` keeps its RAM total and its spill-file counter, found by what _pack
    does to a freshly constructed object: the RAM total is the number that grows by the payload size when nothing is
    spilled, the counter the number that grows by one when the payload is spilled."""
    cache = repo.__dict__.setdefault("_spill_roles", {})
    if cname in cache:
        return cache[cname]
    c = repo.cls(cname)
    pk = repo.resolve(c, "_pack", "method")
    roles = {}
    for role, limit in (("total", None), ("counter", 0)):
        o = _pack_obj(repo, cname, limit, None, _raw=True)
        before = _int_paths(o)
        od = Order()
        od.name(0, "zero", 0)
        od.name(Sym("size"), "size", 2)
        it = _PackInterp(repo, od, "plain")
        try:
            it.run(pk, [Sym("payload")], self_obj=o)
        except (Raised, Undecided, AnalysisError) as exc:
            raise AnalysisError(f"{cname}._pack outside vocabulary while looking for its accounting attributes: {exc}") from exc
        changed = [k for k, v in before.items() if role_get(o, k) != v]
        if role == "total":
            changed = [k for k in changed if not isinstance(role_get(o, k), int)]
        else:
            changed = [k for k in changed if role_get(o, k) == before[k] + 1]
        if len(changed) != 1:
            if role == "counter" and not changed:
                roles[role] = None  # no number counts the spills (the file-name rules decide whether names stay unique)
                continue
            raise AnalysisError(f"cannot identify the {role} attribute of {cname} (candidates {changed})")
        roles[role] = changed[0]
    cache[cname] = roles
    return roles


def _int_paths(o, depth=0):
    """{path: value} of the integer-valued state of an object: its own attributes and those of the private helper objects its
    constructor created (a role is a path of attribute names, e.g. ('_mem', 'in_ram'))."""
    out = {}
    for k, v in o.fields.items():
        if isinstance(v, int) and not isinstance(v, bool):
            out[(k,)] = v
        elif isinstance(v, Obj) and v.cls is not None and v.cls.name.startswith("_") and depth < 2:
            for p2, v2 in _int_paths(v, depth + 1).items():
                out[(k,) + p2] = v2
    return out


def role_get(o, path, default=None):
    if path is None:
        return default
    path = (path,) if isinstance(path, str) else path
    for k in path[:-1]:
        o = o.fields[k]
    return o.fields.get(path[-1], default)


def role_set(o, path, value):
    path = (path,) if isinstance(path, str) else path
    for k in path[:-1]:
        o = o.fields[k]
    o.fields[path[-1]] = value


def _pack_obj(repo, cname, limit, total, _raw=False):
    """A spilling slot as the real code leaves it after construction, with memory limit and location set through the public
    properties; the RAM total (where a scenario prescribes one) is put into the attribute the class really uses."""
    from ..absbase import FinamInterp, seed_from_init
    c = repo.cls(cname)
    o = Obj(cls=c, label=cname)
    it = FinamInterp(repo)
    seed_from_init(it, c, o, {"name": cname, "info": None, "static": False})
    from ..absbase import set_backed
    o.fields.update(logger=Logger(label="logger"), name=cname, data=[])
    set_backed(repo, o, "in_info", Obj(label="in_info", fields={"units": Sym("u_in")}))
    set_backed(repo, o, "info", Obj(label="out_info", fields={"units": Sym("u_out")}))
    it.store_attr(o, "memory_limit", limit, None)
    it.store_attr(o, "memory_location", Sym("location"), None)
    if not _raw:
        roles = spill_roles(repo, cname)
        if total is not None:
            role_set(o, roles["total"], total)
        if roles["counter"] is not None:
            role_set(o, roles["counter"], Sym("counter0"))
    return o


def _total(repo, o):
    return role_get(o, spill_roles(repo, o.cls.name)["total"])


def _set_counter(repo, o, v):
    k = spill_roles(repo, o.cls.name)["counter"]
    if k is not None:
        role_set(o, k, v)


def _packers(repo):
    """Distinct resolved (_pack, _unpack) pairs of the concrete owner classes."""
    _c, own = owners(repo)
    seen = {}
    for c, _attr in own:
        if repo.is_abstract(c):
            continue
        pk, up = repo.resolve(c, "_pack", "method"), repo.resolve(c, "_unpack", "method")
        if pk is None or up is None:
            raise AnalysisError(f"{c.name} has no _pack/_unpack")
        seen.setdefault((pk.qualname, up.qualname), (c, pk, up))
    return list(seen.values())


def r24s_format(repo, sink):
    prep = repo.func("src/finam/data/tools/core.py", "prepare")
    makes_masked = any("ma.array" in U(n.func) for n in fn_walk(prep.node) if isinstance(n, ast.Call))
    sink.note("R24.prepare_constructs_masked_arrays", makes_masked)
    _c, own = owners(repo)
    for c, pk, up in _packers(repo):
        key = f"{pk.qualname}/{up.qualname}"
        results = {}
        for kind in ("plain", "masked", "masked-empty"):
            od = Order()
            lim, tot = Sym("limit"), Sym("total")
            od.name(0, "zero", 0)
            od.name(lim, "limit", 1)
            od.name(Sym("add", tot, Sym("size")), "needed", 2)
            it = _PackInterp(repo, od, kind)
            o = _pack_obj(repo, c.name, lim, tot)
            try:
                ret = it.run(pk, [Sym("payload")], self_obj=o)
            except Raised as r:
                results[kind] = ("raise", r.name)
                continue
            except Undecided as u:
                raise AnalysisError(f"{pk.qualname}: undecidable {u}") from u
            results[kind] = (it.writes, ret)
        why = None
        for kind in ("masked", "masked-empty"):
            if not makes_masked:
                break
            r = results[kind]
            if r[0] == "raise":
                why = f"{kind} payload: _pack raises {r[1]}"
                break
            writes = r[0]
            if not writes:
                why = f"{kind} payload above the limit is not written anywhere"
            elif any(w[0] == "save" and not any(isinstance(x, Sym) and x.op in ("getmaskarray", "getmask") for x in w[2]) for w in writes) \
                    and not any(w[0] in ("dump", "pickle", "savez", "savez_compressed") for w in writes):
                what = "a masked array whose mask has no masked cell" if kind == "masked-empty" else "a masked array"
                why = (f"{what} is written with np.save of its magnitude: np.save cannot persist masked arrays "
                       "(NotImplementedError 'MaskedArray.tofile() not implemented yet', a partial file is left behind)")
            if why:
                break
        if why is None:
            r = results["plain"]
            if r[0] == "raise" or not r[0]:
                why = f"plain payload above the limit: {r}"
        sink.check(why is None, "R24", f"mask:{pk.qualname}", pk,
                   ok="above the limit plain payloads are saved, masked payloads (with or without masked cells) are written mask-preservingly",
                   bad=why or "")
        # reader: a pickled / npz payload must be readable
        masked_writer = results["masked"][0] != "raise" and any(w[0] in ("dump", "pickle") for w in results["masked"][0])
        it = _PackInterp(repo, Order(), "masked")
        o = _pack_obj(repo, c.name, None, 0)
        got = it.run(up, [Sym("file", 0)], self_obj=o)
        loaded = _find(got, "loaded")
        if masked_writer:
            sink.check(loaded is not None and loaded.args[1] is True, "R24", f"mask-reader:{up.qualname}", up,
                       ok="reader loads with allow_pickle=True (the writer pickles masked payloads)",
                       bad="the writer pickles masked payloads but the reader does not allow pickles: spilled masked data cannot be read back")
        if masked_writer and loaded is not None:
            sink.check(_find(got, "bare") is None, "R24", f"mask-reader-keeps-mask:{up.qualname}", up,
                       ok="what np.load returns reaches the consumer without a mask-dropping conversion",
                       bad="the reader passes the loaded object through a plain numpy conversion (np.asarray / np.array): the pickled masked array of a spilled "
                           "publication comes back as its bare buffer - the mask is lost for exactly the publications that went to disk")
        ram = it.run(up, [Sym("payload")], self_obj=o)
        sink.check(ram == Sym("payload"), "R24", f"unpack-ram:{up.qualname}", up, ok="entries kept in RAM are returned as they are", bad=f"_unpack of a RAM entry returns {ram!r}")
    # (b) label units per owner class
    for c, _attr in own:
        if repo.is_abstract(c):
            continue
        up = repo.resolve(c, "_unpack", "method")
        it = _PackInterp(repo, Order(), "plain")
        o = _pack_obj(repo, c.name, None, 0)
        try:
            got = it.run(up, [Sym("file", 0)], self_obj=o)
        except (Raised, Undecided) as exc:
            raise AnalysisError(f"{c.name}._unpack outside vocabulary: {exc}") from exc
        label = got.args[1] if isinstance(got, Sym) and got.op == "qty" else None
        if _find(got, "prepared") is not None and repo.is_subclass(c, repo.cls("IAdapter")):
            sink.bad("R24", f"unpack-shape:{c.name}", up,
                     f"{c.name}._unpack passes data read from disk through prepare(): buffering adapters store entries without the time "
                     "axis, prepare() adds one, so spilled and RAM entries of one buffer differ in shape (StackTime fails, mixed buffers break)")
            continue
        dom = {Sym("u_out"): "OUT", Sym("u_in"): "IN"}.get(label)
        for site_f, pdom in _pack_sites(repo, c):
            k2 = f"units:{c.name}:{site_f.qualname}"
            if dom is None or pdom is None:
                sink.unknown("R24", k2, site_f, f"cannot determine unit domain (packed {pdom}, label {label!r})")
            elif dom == pdom:
                sink.ok("R24", k2, site_f, f"spilled data is labelled with the units it was packed with ({dom})")
            else:
                changes = _get_info_changes_units(repo, c)
                sink.check(not changes, "R24", k2, site_f,
                           ok=f"packed in {pdom} units, labelled with {dom} units; {c.name}._get_info leaves units unchanged",
                           bad=f"data is packed in {pdom} units but a spilled entry is re-labelled with the {dom} units, "
                               f"and {c.name}._get_info rewrites the units ({changes})")


def _find(v, op):
    if isinstance(v, Sym):
        if v.op == op:
            return v
        for a in v.args:
            r = _find(a, op)
            if r is not None:
                return r
    return None


# =========================================================================== R25s
def r25s_pack(repo, sink):
    """Decision table of _pack: spill iff a limit is set and total + size exceeds it; file
    below memory_location with a name unique per slot and spill; RAM accounting."""
    for c, pk, _up in _packers(repo):
        worst = None
        lim, tot = Sym("limit"), Sym("total")
        need = Sym("add", tot, Sym("size"))
        table = [
            ("no limit", None, None, "ram"),
            ("limit above need", 3, 2, "ram"),
            ("limit equal to need", 2, 2, "ram"),
            ("limit below need", 1, 2, "file"),
            ("limit zero", 0, 2, "file"),
        ]
        for name, rl, rn, want in table:
            od = Order()
            od.name(0, "zero", 0)
            od.name(need, "needed", rn if rn is not None else 2)
            limit = None
            if rl is not None:
                limit = 0 if rl == 0 else lim
                if rl != 0:
                    od.name(lim, "limit", rl)
            it = _PackInterp(repo, od, "plain")
            o = _pack_obj(repo, c.name, limit, tot)
            try:
                ret = it.run(pk, [Sym("payload")], self_obj=o)
            except Raised as r:
                worst = worst or f"{name}: raises {r.name}"
                continue
            except Undecided as u:
                raise AnalysisError(f"{pk.qualname}: undecidable {u}") from u
            spilled = bool(it.writes)
            from ..absbase import same_value
            if want == "ram":
                if spilled or ret != Sym("payload"):
                    worst = worst or f"{name}: data is dumped to disk although it fits"
                elif not same_value(_total(repo, o), need):
                    worst = worst or f"{name}: RAM counter becomes {_total(repo, o)!r}, must grow by the payload size"
            else:
                if not spilled or ret == Sym("payload"):
                    worst = worst or f"{name}: data stays in RAM although the limit is exceeded"
                elif not same_value(_total(repo, o), tot):
                    worst = worst or f"{name}: a dumped payload is also accounted as RAM"
        sink.check(worst is None, "R25", f"threshold:{pk.qualname}", pk,
                   ok="spill iff a limit is set and the RAM total plus the new payload exceeds it; RAM accounting exclusive", bad=worst or "")
        # file naming: consecutive spills of every payload kind, and a spill after an eviction
        od = Order()
        od.name(0, "zero", 0)
        od.name(Sym("size"), "size", 2)
        why = None
        for kind in ("plain", "masked", "masked-empty"):
            it = _PackInterp(repo, od, kind)
            o = _pack_obj(repo, c.name, 0, 0)
            _set_counter(repo, o, 0)
            names = []
            try:
                for _ in range(3):
                    names.append(it.run(pk, [Sym("payload")], self_obj=o))
            except (Raised, Undecided) as exc:
                raise AnalysisError(f"{pk.qualname}: {exc}") from exc
            if len(it.joins) != 3 or any(not j or (j[0] != Sym("location")) for j in it.joins):
                why = why or f"spill files are not created below self.memory_location (os.path.join arguments {it.joins!r})"
            elif len({repr(x) for x in names}) != 3:
                why = why or f"{kind} payloads: consecutive spills use the file names {names!r}: a later spill overwrites an earlier, still retained one"
            elif "id(" not in repr(names[0]):
                why = why or f"file name {names[0]!r} does not contain id(self): two slots sharing the directory overwrite each other"
            elif [w[1] for w in it.writes] != names:
                why = why or f"files written {[w[1] for w in it.writes]!r} differ from the names stored in the history {names!r}"
        sink.check(why is None, "R25", f"filename:{pk.qualname}", pk,
                   ok="files are created below memory_location with names unique per slot (id) and per spill (counter), for plain and masked payloads",
                   bad=why or "")
        _names_after_eviction(repo, sink, c, pk, od)
        # location fallback: None location -> current directory, still a join
        o2 = _pack_obj(repo, c.name, 0, 0)
        FinamInterp(repo).store_attr(o2, "memory_location", None, None)
        _set_counter(repo, o2, 0)
        it2 = _PackInterp(repo, od, "plain")
        try:
            it2.run(pk, [Sym("payload")], self_obj=o2)
            sink.check(len(it2.joins) == 1 and it2.joins[0][0] in ("", None), "R25", f"filename-no-location:{pk.qualname}", pk,
                       ok="without a location the file goes to the working directory", bad=f"without a location: {it2.joins!r}")
        except Raised as r:
            sink.bad("R25", f"filename-no-location:{pk.qualname}", pk, f"a slot with a memory limit but no location: the first publication crossing the limit raises {r.name} "
                     "(the run without a limit delivers all data)")
    _wiring(repo, sink)


def _names_after_eviction(repo, sink, c, pk, od):
    """spill, spill, evict the oldest, spill again: the new file must not alias a retained one."""
    ev = None
    for nm in ("_clear_data", "_clear_cached_data"):
        f = repo.resolve(c, nm, "method")
        if f is not None:
            ev = f
            break
    if ev is None:
        return
    from .buffer import T
    od2 = Order()
    od2.name(0, "zero", 0)
    od2.name(Sym("size"), "size", 2)
    for i in range(3):
        od2.name(T(i), f"T{i}", 4 * i)
    q = Sym("q")
    od2.name(q, "q", 4)
    it = _PackInterp(repo, od2, "plain")
    o = _pack_obj(repo, c.name, 0, 0)
    _set_counter(repo, o, 0)
    tgt = Obj(label="A")
    if c.name == "Output" or repo.is_subclass(c, repo.cls("Output")):
        from .buffer import _registry_attr
        o.fields[_registry_attr(repo)] = {tgt: None}
    try:
        for i in range(2):
            o.fields["data"].append((T(i), it.run(pk, [Sym("payload")], self_obj=o)))
        args = [q, tgt] if ev.name == "_clear_data" else [q]
        it.run(ev, args, self_obj=o)
        kept = [d[1] for d in o.fields["data"]]
        new = it.run(pk, [Sym("payload")], self_obj=o)
    except Raised as r:
        sink.bad("R25", f"filename-after-eviction:{c.name}", ev, f"spill / evict / spill sequence raises {r.name}")
        return
    except Undecided as u:
        raise AnalysisError(f"{ev.qualname}: undecidable {u}") from u
    sink.check(len(kept) == 1 and all(repr(new) != repr(k) for k in kept), "R25", f"filename-after-eviction:{c.name}", ev,
               ok="a spill after an eviction gets a fresh file name",
               bad=f"after evicting the oldest spilled entry the next spill is written to {new!r}, the file of the entry still retained "
                   f"({kept!r}): the retained publication is overwritten and later removed twice")


def _wiring(repo, sink):
    from .lifetrace import r25w_memory_wiring
    r25w_memory_wiring(repo, sink)
