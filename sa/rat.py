"""Rational-function normal form over uninterpreted atoms: a value is num/den with both
polynomials (sa.poly.Poly).  Equality is decided by cross multiplication, so expressions
that differ by distribution, common factors or the placement of a division compare equal.
Purely syntactic algebra; no program value is ever evaluated."""
from __future__ import annotations

from fractions import Fraction

from .interp import Sym
from .poly import NotPolynomial, Poly


class Rat:
    __slots__ = ("num", "den")

    def __init__(self, num, den=None):
        self.num = num
        self.den = den if den is not None else Poly.const(1)

    def __add__(self, o):
        if self.den == o.den:
            return Rat(self.num + o.num, self.den)
        return Rat(self.num * o.den + o.num * self.den, self.den * o.den)

    def __neg__(self):
        return Rat(-self.num, self.den)

    def __sub__(self, o):
        return self + (-o)

    def __mul__(self, o):
        return Rat(self.num * o.num, self.den * o.den)

    def __truediv__(self, o):
        if not o.num.terms:
            raise NotPolynomial("division by zero polynomial")
        return Rat(self.num * o.den, self.den * o.num)

    def equals(self, o):
        return self.num * o.den == o.num * self.den

    def is_zero(self):
        return not self.num.terms

    def __repr__(self):
        if self.den.is_const() and self.den.const_value() == 1:
            return repr(self.num)
        return f"({self.num!r}) / ({self.den!r})"


def to_rat(v):
    if isinstance(v, bool):
        raise NotPolynomial(repr(v))
    if isinstance(v, (int, Fraction)):
        return Rat(Poly.const(v))
    if isinstance(v, float):
        return Rat(Poly.const(Fraction(v).limit_denominator(10**9)))
    if isinstance(v, Sym):
        if v.op == "add":
            return to_rat(v.args[0]) + to_rat(v.args[1])
        if v.op == "sub":
            return to_rat(v.args[0]) - to_rat(v.args[1])
        if v.op == "mul":
            return to_rat(v.args[0]) * to_rat(v.args[1])
        if v.op == "neg":
            return -to_rat(v.args[0])
        if v.op == "div":
            return to_rat(v.args[0]) / to_rat(v.args[1])
        return Rat(Poly.atom(v))
    raise NotPolynomial(repr(v))


def rat_eq(a, b):
    try:
        return to_rat(a).equals(to_rat(b))
    except NotPolynomial:
        return a == b
