"""In-memory variants (DESIGN 2.8): seeded breaking edits must be detected, behaviour-
preserving edits must stay silent.  A variant is a textual edit of one source file applied
to the *current* tree; the edited text is parsed into a `Repo` with overrides - nothing is
written to disk and finam is never run.  An edit whose anchor no longer exists is skipped
and counted."""
from __future__ import annotations

import os
import time
from concurrent.futures import ProcessPoolExecutor

from . import registry
from .interp import Raised, Undecided
from .loader import AnalysisError, Repo
from .report import DISCHARGED, UNRECOGNISED, VIOLATED, Sink, split_known


class Variant:
    def __init__(self, name, file, old, new, breaks=None, benign_for=None, why="", count=1):
        self.name = name
        self.file = file if file.startswith("src/") else "src/finam/" + file
        self.old, self.new = old, new
        self.breaks = breaks or {}  # {property: [rule ids, at least one must fire]}
        self.benign_for = benign_for or []  # properties whose check must stay silent
        self.why = why
        self.count = count

    def apply(self, root):
        path = os.path.join(root, self.file)
        if not os.path.exists(path):
            return None
        with open(path, encoding="utf-8") as fh:
            src = fh.read()
        if src.count(self.old) != self.count:
            return None
        return {self.file: src.replace(self.old, self.new)}


def _run(prop, root, overrides, tier="quick"):
    repo = Repo(root, overrides)
    sink = Sink()
    for rid, fn in registry.PROPS[prop]["rules"]:
        try:
            registry.call_rule(fn, repo, sink, tier)
        except AnalysisError as exc:
            sink.unknown(rid, f"analysis:{rid}", None, str(exc))
        except RecursionError:
            sink.unknown(rid, f"analysis:{rid}", None, "recursion limit")
        except (Undecided, Raised) as exc:
            sink.unknown(rid, f"analysis:{rid}", None, f"outside abstract domain: {exc}")
    return sink


def eval_variant(args):
    """Worker: returns (variant name, prop, status, detail)."""
    vname, prop, root = args
    from .variants_data import VARIANTS
    v = next(x for x in VARIANTS if x.name == vname)
    ov = v.apply(root)
    if ov is None:
        return (vname, prop, "skipped", "anchor not found")
    try:
        sink = _run(prop, root, ov)
    except AnalysisError as exc:
        return (vname, prop, "error", str(exc))
    except Exception as exc:  # pylint: disable=broad-except
        return (vname, prop, "error", f"{type(exc).__name__}: {exc}")
    bad = [o for o in sink.obs if o.verdict == VIOLATED]
    unk = [o for o in sink.obs if o.verdict == UNRECOGNISED]
    if prop in v.breaks:
        want = v.breaks[prop]
        hit = [o for o in bad if o.rule in want]
        if hit:
            return (vname, prop, "detected", f"{hit[0].rule} [{hit[0].key}] {hit[0].msg[:160]}")
        if bad:
            return (vname, prop, "detected-other", f"{bad[0].rule} [{bad[0].key}] {bad[0].msg[:160]}")
        if unk:
            return (vname, prop, "unrecognised", f"{unk[0].rule}: {unk[0].msg[:160]}")
        return (vname, prop, "missed", "")
    # benign
    if bad:
        return (vname, prop, "false-alarm", f"{bad[0].rule} [{bad[0].key}] {bad[0].msg[:160]}")
    if unk:
        return (vname, prop, "benign-unrecognised", f"{unk[0].rule}: {unk[0].msg[:160]}")
    return (vname, prop, "silent", "")


def jobs_for(prop=None):
    from .variants_data import VARIANTS
    out = []
    for v in VARIANTS:
        for p in list(v.breaks) + list(v.benign_for):
            if p in registry.PROPS and (prop is None or p == prop):
                out.append((v.name, p))
    return out


def run_jobs(jobs, root, workers=None):
    workers = workers or min(16, os.cpu_count() or 4)
    args = [(n, p, root) for n, p in jobs]
    if len(args) <= 2:
        return [eval_variant(a) for a in args]
    with ProcessPoolExecutor(max_workers=workers) as ex:
        return list(ex.map(eval_variant, args, chunksize=2))


def run_for_property(prop, root, sink):
    """Thorough tier: evaluate this property's variants against the current tree."""
    t0 = time.time()
    res = run_jobs(jobs_for(prop), root)
    tally = {}
    for _n, _p, st, _d in res:
        tally[st] = tally.get(st, 0) + 1
    for n, p, st, d in res:
        if st in ("missed", "unrecognised"):
            sink.unknown("VAR", f"variant:{n}", None, f"seeded breaking edit '{n}' is no longer detected ({st}): lost sensitivity {d}")
        elif st in ("false-alarm", "benign-unrecognised"):
            sink.unknown("VAR", f"variant:{n}", None, f"behaviour-preserving edit '{n}' makes the check fire ({st}): {d}")
        elif st == "error":
            sink.unknown("VAR", f"variant:{n}", None, f"variant '{n}' crashed the analysis: {d}")
    return {
        "variants": {
            "evaluated": len(res),
            "tally": tally,
            "wall_s": round(time.time() - t0, 2),
            "samples": [{"variant": n, "status": st, "detail": d} for n, _p, st, d in res][:40],
        }
    }
