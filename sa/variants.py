"""In-memory variants (DESIGN 2.8): seeded breaking edits must be detected, behaviour-
preserving edits must stay silent.  A variant is a textual edit of one source file applied
to the *current* tree; the edited text is parsed into a `Repo` with overrides - nothing is
written to disk and finam is never run.  An edit whose anchor no longer exists is skipped
and counted."""
from __future__ import annotations

import os
import time
from concurrent.futures import ProcessPoolExecutor

from . import registry
from .interp import Raised, Undecided
from .loader import AnalysisError, Repo
from .report import DISCHARGED, UNRECOGNISED, VIOLATED, Sink, split_known


class Variant:
    def __init__(self, name, file, old, new, breaks=None, benign_for=None, why="", count=1):
        self.name = name
        self.file = file if file.startswith("src/") else "src/finam/" + file
        self.old, self.new = old, new
        self.breaks = breaks or {}  # {property: [rule ids, at least one must fire]}
        self.benign_for = benign_for or []  # properties whose check must stay silent
        self.why = why
        self.count = count

    def apply(self, root):
        path = os.path.join(root, self.file)
        if not os.path.exists(path):
            return None
        with open(path, encoding="utf-8") as fh:
            src = fh.read()
        if src.count(self.old) != self.count:
            return None
        return {self.file: src.replace(self.old, self.new)}


def _run(prop, root, overrides, tier="quick"):
    repo = Repo(root, overrides)
    sink = Sink()
    for rid, fn in registry.PROPS[prop]["rules"]:
        try:
            registry.call_rule(fn, repo, sink, tier)
        except AnalysisError as exc:
            sink.unknown(rid, f"analysis:{rid}", None, str(exc))
        except RecursionError:
            sink.unknown(rid, f"analysis:{rid}", None, "recursion limit")
        except (Undecided, Raised) as exc:
            sink.unknown(rid, f"analysis:{rid}", None, f"outside abstract domain: {exc}")
    return sink


def _unlisted(prop, sink):
    """Violated obligations that no open known finding covers."""
    _listed, unlisted = split_known(prop, sink.obs)
    return [o for o, _k in unlisted]


def eval_variant(args):
    """Worker: returns (variant name, prop, status, detail)."""
    vname, prop, root = args
    from .variants_data import VARIANTS
    v = next(x for x in VARIANTS if x.name == vname)
    ov = v.apply(root)
    if ov is None:
        return (vname, prop, "skipped", "anchor not found")
    try:
        sink = _run(prop, root, ov)
    except AnalysisError as exc:
        return (vname, prop, "error", str(exc))
    except Exception as exc:  # pylint: disable=broad-except
        return (vname, prop, "error", f"{type(exc).__name__}: {exc}")
    bad = _unlisted(prop, sink)
    unk = [o for o in sink.obs if o.verdict == UNRECOGNISED]
    if prop in v.breaks:
        want = v.breaks[prop]
        hit = [o for o in bad if o.rule in want]
        if hit:
            return (vname, prop, "detected", f"{hit[0].rule} [{hit[0].key}] {hit[0].msg[:160]}")
        if bad:
            return (vname, prop, "detected-other", f"{bad[0].rule} [{bad[0].key}] {bad[0].msg[:160]}")
        if unk:
            return (vname, prop, "unrecognised", f"{unk[0].rule}: {unk[0].msg[:160]}")
        return (vname, prop, "missed", "")
    # benign
    if bad:
        return (vname, prop, "false-alarm", f"{bad[0].rule} [{bad[0].key}] {bad[0].msg[:160]}")
    if unk:
        return (vname, prop, "benign-unrecognised", f"{unk[0].rule}: {unk[0].msg[:160]}")
    return (vname, prop, "silent", "")


SEEDED_DIR = os.path.join(os.path.dirname(os.path.dirname(os.path.abspath(__file__))), "seeded")


def seed_overrides(root, patchfile):
    """Text of the files a recorded seeded change touches, with the change applied - computed on
    copies in a temporary directory (removed at once); None when the patch no longer applies."""
    import re
    import shutil
    import subprocess
    import tempfile
    with open(patchfile, encoding="utf-8") as fh:
        files = re.findall(r"^\+\+\+ b/(\S+)", fh.read(), flags=re.M)
    tmp = tempfile.mkdtemp(prefix="verif_seed_")
    try:
        for f in files:
            src = os.path.join(root, f)
            if os.path.exists(src):
                os.makedirs(os.path.dirname(os.path.join(tmp, f)), exist_ok=True)
                shutil.copy(src, os.path.join(tmp, f))
        r = subprocess.run(["patch", "-p1", "-s", "-f", "--no-backup-if-mismatch", "-F0", "-i", os.path.abspath(patchfile)],
                           cwd=tmp, capture_output=True, text=True)
        if r.returncode != 0:
            return None
        out = {}
        for f in files:
            if f.endswith(".py") and f.startswith("src/"):
                with open(os.path.join(tmp, f), encoding="utf-8") as fh:
                    out[f] = fh.read()
        return out
    finally:
        shutil.rmtree(tmp, ignore_errors=True)


def seeded_for(prop=None):
    import glob
    import json
    out = []
    for meta in sorted(glob.glob(os.path.join(SEEDED_DIR, "*", "meta.json"))):
        with open(meta, encoding="utf-8") as fh:
            m = json.load(fh)
        if prop is None or m.get("breaks_property") == prop:
            out.append((m["id"], m["breaks_property"]))
    return out


BENIGN_DIR = os.path.join(os.path.dirname(os.path.dirname(os.path.abspath(__file__))), "benign")


def benign_all():
    import glob
    return sorted(os.path.basename(os.path.dirname(m)) for m in glob.glob(os.path.join(BENIGN_DIR, "*", "meta.json")))


def eval_benign(args):
    """A recorded behaviour-preserving refactoring must leave the property's check silent."""
    bid, prop, root = args
    ov = seed_overrides(root, os.path.join(BENIGN_DIR, bid, "patch.diff"))
    if ov is None:
        return (bid, prop, "skipped", "recorded refactoring no longer applies to this tree")
    try:
        sink = _run(prop, root, ov)
    except Exception as exc:  # pylint: disable=broad-except
        return (bid, prop, "error", f"{type(exc).__name__}: {exc}")
    bad = _unlisted(prop, sink)
    unk = [o for o in sink.obs if o.verdict == UNRECOGNISED]
    if bad:
        return (bid, prop, "false-alarm", f"{bad[0].rule} [{bad[0].key}] {bad[0].msg[:160]}")
    if unk:
        return (bid, prop, "benign-unrecognised", f"{unk[0].rule}: {unk[0].msg[:160]}")
    return (bid, prop, "silent", "")


def eval_seed(args):
    sid, prop, root = args
    ov = seed_overrides(root, os.path.join(SEEDED_DIR, sid, "patch.diff"))
    if ov is None:
        return (sid, prop, "skipped", "recorded change no longer applies to this tree")
    try:
        sink = _run(prop, root, ov)
    except Exception as exc:  # pylint: disable=broad-except
        return (sid, prop, "error", f"{type(exc).__name__}: {exc}")
    bad = _unlisted(prop, sink)
    unk = [o for o in sink.obs if o.verdict == UNRECOGNISED]
    if bad:
        return (sid, prop, "detected", f"{bad[0].rule} [{bad[0].key}] {bad[0].msg[:160]}")
    if unk:
        return (sid, prop, "unrecognised", f"{unk[0].rule}: {unk[0].msg[:160]}")
    return (sid, prop, "missed", "")


def jobs_for(prop=None):
    from .variants_data import VARIANTS
    out = []
    for v in VARIANTS:
        for p in list(v.breaks) + list(v.benign_for):
            if p in registry.PROPS and (prop is None or p == prop):
                out.append((v.name, p))
    return out


def run_jobs(jobs, root, workers=None):
    workers = workers or min(16, os.cpu_count() or 4)
    args = [(n, p, root) for n, p in jobs]
    if len(args) <= 2:
        return [eval_variant(a) for a in args]
    with ProcessPoolExecutor(max_workers=workers) as ex:
        return list(ex.map(eval_variant, args, chunksize=2))


def run_for_property(prop, root, sink):
    """Thorough tier: evaluate this property's in-memory variants and the recorded seeded
    changes against the current tree.  The outcome is a measure of the check's sensitivity on
    this tree, not of the tree: it is reported (evidence + SENSITIVITY lines) and never changes
    the verdict on the tree."""
    t0 = time.time()
    workers = min(16, os.cpu_count() or 4)
    vargs = [(n, p, root) for n, p in jobs_for(prop)]
    sargs = [(n, p, root) for n, p in seeded_for(prop)]
    bargs = [(b, prop, root) for b in benign_all()]
    if len(vargs) + len(sargs) + len(bargs) <= 2:
        res = [eval_variant(a) for a in vargs]
        sres = [eval_seed(a) for a in sargs]
        bres = [eval_benign(a) for a in bargs]
    else:
        with ProcessPoolExecutor(max_workers=workers) as ex:
            fv = ex.map(eval_variant, vargs, chunksize=2)
            fs = ex.map(eval_seed, sargs, chunksize=1)
            fb = ex.map(eval_benign, bargs, chunksize=1)
            res, sres, bres = list(fv), list(fs), list(fb)
    tally, stally, btally, warnings = {}, {}, {}, []
    for _n, _p, st, _d in bres:
        btally[st] = btally.get(st, 0) + 1
    for n, p, st, d in bres:
        if st in ("false-alarm", "benign-unrecognised", "error"):
            warnings.append(f"recorded behaviour-preserving refactoring '{n}' makes the check fire ({st}): {d}")
    for _n, _p, st, _d in res:
        tally[st] = tally.get(st, 0) + 1
    for _n, _p, st, _d in sres:
        stally[st] = stally.get(st, 0) + 1
    for n, p, st, d in res:
        if st in ("missed", "unrecognised"):
            warnings.append(f"seeded breaking edit '{n}' is not detected on this tree ({st}) {d}")
        elif st in ("false-alarm", "benign-unrecognised"):
            warnings.append(f"behaviour-preserving edit '{n}' makes the check fire ({st}): {d}")
        elif st == "error":
            warnings.append(f"variant '{n}' crashed the analysis: {d}")
    for n, p, st, d in sres:
        if st in ("missed", "unrecognised", "error"):
            warnings.append(f"recorded seeded change '{n}' is not detected on this tree ({st}) {d}")
    for w in warnings:
        print(f"SENSITIVITY property={prop} {w}")
    return {
        "variants": {
            "evaluated": len(res),
            "tally": tally,
            "wall_s": round(time.time() - t0, 2),
            "samples": [{"variant": n, "status": st, "detail": d} for n, _p, st, d in res][:40],
        },
        "seeded_changes": {
            "evaluated": len(sres),
            "tally": stally,
            "results": [{"id": n, "status": st, "detail": d} for n, _p, st, d in sres],
        },
        "benign_refactorings": {
            "evaluated": len(bres),
            "tally": btally,
            "not_silent": [{"id": n, "status": st, "detail": d} for n, _p, st, d in bres if st != "silent"],
        },
        "sensitivity_warnings": warnings,
    }
