"""Finite-domain abstract interpreter over function ASTs ("decision-table extraction").

This is *not* concrete execution and uses no solver: leaves are uninterpreted symbols
(`Sym`), containers have concrete shape, and every branch condition must be decided
by the abstract state the rule supplies (an order type over time atoms, an adapter
kind, a mask kind, ...).  A condition the abstract state cannot decide is either forked
(both outcomes explored, path condition recorded) when the rule allows it, or ends the
analysis as UNRECOGNISED.  The vocabulary is the Python subset used by the small
functions the rules target; anything else raises `AnalysisError`.
"""
from __future__ import annotations

import ast

from .loader import AnalysisError, Class, Func, body_of


class Sym:
    """Uninterpreted symbolic term."""

    __slots__ = ("op", "args")

    def __init__(self, op, *args):
        self.op = op
        self.args = tuple(args)

    def __eq__(self, other):
        return isinstance(other, Sym) and self.op == other.op and self.args == other.args

    def __hash__(self):
        return hash((self.op, self.args))

    def __repr__(self):
        if not self.args:
            return str(self.op)
        return f"{self.op}({', '.join(map(repr, self.args))})"


class Obj:
    """Abstract object: a class from the repo (for member resolution) plus fields."""

    def __init__(self, cls=None, fields=None, label=None, markers=()):
        self.cls = cls
        self.fields = dict(fields or {})
        self.label = label or (cls.name if cls else "obj")
        self.markers = set(markers)

    def __repr__(self):
        return f"<{self.label}>"


class Super:
    """Result of a zero-argument super() inside a method of `cls` on object `obj`."""

    def __init__(self, obj, cls):
        self.obj, self.cls = obj, cls


class NamedTup(tuple):
    """typing.NamedTuple instance of a private repo class: a real tuple (unpacking, indexing, equality with plain tuples)
    whose fields can also be read by name and whose class's methods / properties can be called."""

    def __new__(cls, klass, names, values):
        t = super().__new__(cls, values)
        t.klass, t.names = klass, list(names)
        return t


class DynProp:
    """A property object built at class-creation time by `property(fget, fset)` (e.g. returned by a factory function and
    bound to a class-level name)."""

    def __init__(self, fget, fset=None):
        self.fget, self.fset = fget, fset


class PropObj:
    """A property object read off its class (`Cls.prop`), for explicit `fget` / `fset` calls."""

    def __init__(self, cls, name):
        self.cls, self.name = cls, name


class Iter:
    """Explicit iterator over a finite sequence (iter(seq)): consumed element by element by next() and by for loops."""

    def __init__(self, items):
        self.items, self.pos = list(items), 0

    def __iter__(self):
        return self

    def __next__(self):
        if self.pos >= len(self.items):
            raise StopIteration
        self.pos += 1
        return self.items[self.pos - 1]


class Closure:
    def __init__(self, func, env=None, self_obj=None, interp=None):
        self.func = func  # loader.Func or ast.Lambda/FunctionDef
        self.env = env or {}
        self.self_obj = self_obj

    def __repr__(self):
        return f"<closure {getattr(self.func, 'qualname', 'lambda')}>"


class Partial:
    """functools.partial(func, *args, **kwargs)."""

    def __init__(self, func, args, kwargs):
        self.func, self.args, self.kwargs = func, tuple(args), dict(kwargs)

    def __repr__(self):
        return f"partial({self.func!r}, ...)"


class Raised(Exception):
    def __init__(self, exc, node=None):
        super().__init__(str(exc))
        self.exc = exc  # Sym('exc', name, ...) or str
        self.node = node

    @property
    def name(self):
        if isinstance(self.exc, Sym):
            return self.exc.args[0] if self.exc.args else self.exc.op
        return str(self.exc)


class _Return(Exception):
    def __init__(self, value):
        self.value = value


class _Break(Exception):
    pass


class _Continue(Exception):
    pass


class Undecided(Exception):
    def __init__(self, what, node=None):
        super().__init__(what)
        self.node = node


UNSET = Sym("<unset>")


class Interp:
    """Subclass and override the hooks.  `run(func, args)` returns the value or raises
    `Raised`.  With `fork=True`, undecidable truth tests are explored both ways via
    `run_all`, which returns a list of (path_condition, outcome)."""

    max_loop = 200
    max_depth = 12

    def __init__(self, repo):
        self.repo = repo
        self.decisions = []
        self._cursor = 0
        self._known = {}
        self.fork = False
        self.trace = []
        self.depth = 0

    # ------------------------------------------------------------------ hooks
    def global_name(self, name, mod):
        """Resolve a free name (builtins handled before this)."""
        ent = self.repo.lookup(mod, name) if mod is not None else None
        if isinstance(ent, Func):
            return Closure(ent)
        if isinstance(ent, Class):
            return ent
        if isinstance(ent, ast.AST):
            return self.eval(ent, {}, mod)
        if ent is not None:
            return ent
        raise AnalysisError(f"unresolved name '{name}'")

    def get_attr(self, obj, attr, node, mod):
        raise AnalysisError(f"attribute .{attr} on {obj!r} not in vocabulary (line {node.lineno})")

    def set_attr(self, obj, attr, value, node):
        if isinstance(obj, Obj):
            obj.fields[attr] = value
            return
        raise AnalysisError(f"store to .{attr} on {obj!r} not in vocabulary")

    def call_hook(self, fv, args, kwargs, node, mod):
        """Return NotImplemented to fall through to the default handling."""
        return NotImplemented

    def compare(self, op, left, right, node):
        """Decide a comparison; return bool, a Sym condition, or raise Undecided."""
        if isinstance(op, ast.Is):
            if isinstance(left, Sym) and isinstance(right, Sym) and left.op == right.op and left.op in _SINGLETON_OPS:
                return left == right  # enum members and module-level sentinels are singletons
            return left is right or (_plain(left) and _plain(right) and left == right and (left is None or isinstance(left, bool)))
        if isinstance(op, ast.IsNot):
            r = self.compare(ast.Is(), left, right, node)
            return (not r) if isinstance(r, bool) else Sym("not", r)
        if isinstance(op, (ast.In, ast.NotIn)) and isinstance(right, Obj) and right.cls is not None:
            m = self.repo.resolve(right.cls, "__contains__", "method")
            if m is not None:
                r = self.truth(self.call_func(Closure(m, self_obj=right), [left], {}, node), node)
                return r if isinstance(op, ast.In) else not r
        if isinstance(op, (ast.LtE, ast.GtE, ast.Lt, ast.Gt, ast.Eq, ast.NotEq)) and isinstance(left, (set, frozenset)) and isinstance(right, (set, frozenset)):
            def _in(x, coll):
                return any(x is y or x == y for y in coll)
            sub = all(_in(x, right) for x in left)
            sup = all(_in(x, left) for x in right)
            return {ast.LtE: sub, ast.GtE: sup, ast.Lt: sub and not sup, ast.Gt: sup and not sub, ast.Eq: sub and sup, ast.NotEq: not (sub and sup)}[type(op)]
        if isinstance(op, (ast.In, ast.NotIn)):
            if isinstance(right, (list, tuple, set, dict, frozenset)):
                try:
                    r = left in right
                except TypeError:
                    r = any(left is x or left == x for x in right)
                return r if isinstance(op, ast.In) else not r
            raise Undecided(f"membership in {right!r}", node)
        if _plain(left) and _plain(right):
            try:
                return {
                    ast.Eq: lambda: left == right,
                    ast.NotEq: lambda: left != right,
                    ast.Lt: lambda: left < right,
                    ast.LtE: lambda: left <= right,
                    ast.Gt: lambda: left > right,
                    ast.GtE: lambda: left >= right,
                }[type(op)]()
            except TypeError:
                pass
        if isinstance(op, (ast.Eq, ast.NotEq)) and isinstance(left, (tuple, list)) and isinstance(right, (tuple, list)) \
                and _all_plain(left) and _all_plain(right):
            r = (type(left) is type(right) or {type(left), type(right)} <= {tuple} or isinstance(left, type(right)) or isinstance(right, type(left))) \
                and list(left) == list(right)
            return r if isinstance(op, ast.Eq) else not r
        if isinstance(op, (ast.Eq, ast.NotEq)) and (left is right or (isinstance(left, Sym) and isinstance(right, Sym) and left == right)):
            return isinstance(op, ast.Eq)  # one and the same term denotes one value
        if isinstance(op, (ast.Eq, ast.NotEq)) and isinstance(left, (Sym, Obj)) and isinstance(right, (Sym, Obj)):
            if isinstance(left, Obj) or isinstance(right, Obj):
                r = left is right
                return r if isinstance(op, ast.Eq) else not r
        return self.sym_compare(op, left, right, node)

    def sym_compare(self, op, left, right, node):
        raise Undecided(f"{left!r} {type(op).__name__} {right!r}", node)

    def binop(self, op, left, right, node):
        if _plain(left) and _plain(right):
            try:
                return _BIN[type(op)](left, right)
            except Exception as exc:
                raise AnalysisError(f"binop failed: {exc}") from exc
        if isinstance(op, ast.Add) and isinstance(left, (list, tuple)) and isinstance(right, type(left)):
            return left + right
        if isinstance(op, ast.Mult) and isinstance(left, (list, tuple)) and isinstance(right, int) and not isinstance(right, bool):
            return left * right
        if isinstance(op, ast.Mult) and isinstance(right, (list, tuple)) and isinstance(left, int) and not isinstance(left, bool):
            return left * right
        if isinstance(left, (set, frozenset)) and isinstance(right, (set, frozenset)):
            if isinstance(op, ast.Sub):
                return {x for x in left if not any(x is y or x == y for y in right)}
            if isinstance(op, ast.BitOr):
                return set(left) | set(right)
            if isinstance(op, ast.BitAnd):
                return {x for x in left if any(x is y or x == y for y in right)}
        return Sym(_BINSYM.get(type(op), type(op).__name__), left, right)

    def aug_assign(self, op, cur, value, node):
        """`cur op= value`; rules that care about in-place updates of array stand-ins override this."""
        return self.binop(op, cur, value, node)

    def unaryop(self, op, v, node):
        if isinstance(op, ast.USub):
            if _plain(v):
                return -v
            return Sym("neg", v)
        if isinstance(op, ast.Invert):
            if isinstance(v, bool):
                raise AnalysisError("bitwise ~ on a python bool")
            if isinstance(v, int):
                return ~v
            return Sym("invert", v)
        if isinstance(op, ast.UAdd):
            return v
        raise AnalysisError(f"unary {type(op).__name__} not in vocabulary")

    def truth(self, v, node):
        if isinstance(v, bool):
            return v
        if v is None:
            return False
        if isinstance(v, (int, float, str, list, tuple, dict, set, frozenset)):
            return bool(v)
        if isinstance(v, (Obj, Closure)):
            return self.obj_truth(v, node)
        return self.decide(v, node)

    def obj_truth(self, v, node):
        return True

    def decide(self, cond, node):
        """Undecidable symbolic condition: fork (if allowed) or give up."""
        if not self.fork:
            raise Undecided(repr(cond), node)
        try:
            if cond in self._known:
                return self._known[cond]
        except TypeError:
            pass
        choice = self._decide_new(cond)
        try:
            self._known[cond] = choice
        except TypeError:
            pass
        return choice

    def _decide_new(self, cond):
        if self._cursor < len(self.decisions):
            choice = self.decisions[self._cursor][1]
        else:
            choice = True
            self.decisions.append((cond, True))
        self._cursor += 1
        return choice

    def iterate(self, v, node):
        if isinstance(v, (list, tuple)):
            return list(v)
        if isinstance(v, dict):
            return list(v.keys())
        if isinstance(v, (set, frozenset)):
            return list(v)
        if isinstance(v, range):
            return list(v)
        if isinstance(v, Count):
            return v.gen(self.max_loop)
        if isinstance(v, Iter):
            return v  # lazily: a loop that breaks leaves the rest in the iterator
        if isinstance(v, Class) and any(isinstance(b, str) and b.split(".")[-1] in ("Enum", "IntEnum", "Flag") for k in self.repo.mro(v) for b in k.bases):
            # iterating an Enum class yields its members in definition order
            return [Sym("enum", v.name, n) for n in v.attrs if not n.startswith("_")]
        raise AnalysisError(f"cannot iterate {v!r} (line {getattr(node, 'lineno', '?')})")

    def on_raise(self, exc_value, node):
        raise Raised(exc_value, node)

    # ---------------------------------------------------------------- driver
    def run(self, func, args=(), kwargs=None, self_obj=None):
        if func is None:
            raise AnalysisError("the function / property a rule wants to run is not defined by a def in the class (anchor moved)")
        return self.call_func(Closure(func, self_obj=self_obj), list(args), kwargs or {}, None)

    def run_all(self, thunk, limit=4096):
        """Explore all decision sequences of `thunk()`.  Returns list of
        (decisions, ('ret', value) | ('raise', Raised))."""
        self.fork = True
        results = []
        pending = [[]]
        while pending:
            prefix = pending.pop()
            self.decisions = list(prefix)
            self._cursor = 0
            self._known = {}
            try:
                out = ("ret", thunk())
            except Raised as r:
                out = ("raise", r)
            decs = list(self.decisions[: self._cursor]) if self._cursor <= len(self.decisions) else list(self.decisions)
            results.append((decs, out))
            for i in range(len(prefix), len(decs)):
                alt = decs[:i] + [(decs[i][0], False)]
                pending.append(alt)
            if len(results) > limit:
                raise AnalysisError("path explosion in decision-table extraction")
        return results

    # -------------------------------------------------------------- calling
    def call_func(self, clo, args, kwargs, node):
        f = clo.func
        if isinstance(f, Func):
            fn = f.node
            mod = f.module
        else:
            fn = f
            mod = clo.env.get("__mod__")
        self.depth += 1
        if self.depth > self.max_depth:
            self.depth -= 1
            raise AnalysisError("inlining depth exceeded")
        try:
            env = dict(clo.env)
            env["__mod__"] = mod
            if isinstance(f, Func) and f.cls is not None:
                env["__defcls__"] = f.cls
                env["__selfobj__"] = clo.self_obj if clo.self_obj is not None else (args[0] if args else None)
            a = fn.args
            params = [x.arg for x in a.posonlyargs + a.args]
            defaults = list(a.defaults)
            if clo.self_obj is not None and not (isinstance(f, Func) and f.is_static):
                bound = clo.self_obj
                if isinstance(f, Func) and getattr(f, "is_classmethod", False):
                    bound = clo.self_obj.cls if isinstance(clo.self_obj, Obj) else clo.self_obj
                args = [bound] + list(args)
            n_req = len(params) - len(defaults)
            for i, p in enumerate(params):
                if i < len(args):
                    env[p] = args[i]
                elif p in kwargs:
                    env[p] = kwargs[p]
                elif i >= n_req:
                    env[p] = self.eval(defaults[i - n_req], env, mod)
                else:
                    raise AnalysisError(f"missing argument {p} calling {getattr(f, 'qualname', 'lambda')}")
            if len(args) > len(params):
                if a.vararg:
                    env[a.vararg.arg] = tuple(args[len(params):])
                else:
                    raise AnalysisError(f"too many arguments calling {getattr(f, 'qualname', 'lambda')}")
            for i, k in enumerate(a.kwonlyargs):
                if k.arg in kwargs:
                    env[k.arg] = kwargs[k.arg]
                elif a.kw_defaults[i] is not None:
                    env[k.arg] = self.eval(a.kw_defaults[i], env, mod)
            extra = {k: v for k, v in kwargs.items() if k not in params and k not in [x.arg for x in a.kwonlyargs]}
            if a.kwarg:
                env[a.kwarg.arg] = extra
            elif extra:
                raise AnalysisError(f"unexpected keyword {sorted(extra)}")
            if isinstance(fn, ast.Lambda):
                return self.eval(fn.body, env, mod)
            if _is_generator(fn):
                # generator functions are run eagerly: the values they yield become a list
                env["__yield__"] = []
                try:
                    self.exec_block(body_of(fn), env, mod)
                except _Return:
                    pass
                return env["__yield__"]
            try:
                self.exec_block(body_of(fn), env, mod)
            except _Return as r:
                return r.value
            return None
        finally:
            self.depth -= 1

    # ------------------------------------------------------------ statements
    def exec_block(self, stmts, env, mod):
        for s in stmts:
            self.exec_stmt(s, env, mod)

    def exec_stmt(self, s, env, mod):
        if isinstance(s, ast.Assign):
            v = self.eval(s.value, env, mod)
            for t in s.targets:
                self.assign(t, v, env, mod)
        elif isinstance(s, ast.AnnAssign):
            if s.value is not None:
                self.assign(s.target, self.eval(s.value, env, mod), env, mod)
        elif isinstance(s, ast.AugAssign):
            cur = self.eval(_load(s.target), env, mod)
            v = self.aug_assign(s.op, cur, self.eval(s.value, env, mod), s)
            self.assign(s.target, v, env, mod)
        elif isinstance(s, ast.Expr):
            self.eval(s.value, env, mod)
        elif isinstance(s, ast.If):
            if self.truth(self.eval(s.test, env, mod), s.test):
                self.exec_block(s.body, env, mod)
            else:
                self.exec_block(s.orelse, env, mod)
        elif isinstance(s, ast.While):
            n = 0
            broke = False
            while self.truth(self.eval(s.test, env, mod), s.test):
                n += 1
                if n > self.max_loop:
                    raise AnalysisError(f"loop bound exceeded at line {s.lineno}")
                try:
                    self.exec_block(s.body, env, mod)
                except _Break:
                    broke = True
                    break
                except _Continue:
                    continue
            if not broke:
                self.exec_block(s.orelse, env, mod)
        elif isinstance(s, ast.For):
            items = self.iterate(self.eval(s.iter, env, mod), s)
            broke = False
            for it in items:
                self.assign(s.target, it, env, mod)
                try:
                    self.exec_block(s.body, env, mod)
                except _Break:
                    broke = True
                    break
                except _Continue:
                    continue
            if not broke:
                self.exec_block(s.orelse, env, mod)
        elif isinstance(s, ast.Return):
            raise _Return(self.eval(s.value, env, mod) if s.value is not None else None)
        elif isinstance(s, ast.Raise):
            exc = self.eval(s.exc, env, mod) if s.exc is not None else Sym("exc", "reraise")
            self.on_raise(exc, s)
        elif isinstance(s, ast.Break):
            raise _Break()
        elif isinstance(s, ast.Continue):
            raise _Continue()
        elif isinstance(s, ast.Pass):
            pass
        elif isinstance(s, ast.With):
            for it in s.items:
                v = self.eval(it.context_expr, env, mod)
                if it.optional_vars is not None:
                    self.assign(it.optional_vars, v, env, mod)
            self.exec_block(s.body, env, mod)
        elif isinstance(s, ast.Try):
            try:
                self.exec_block(s.body, env, mod)
            except Raised as r:
                for h in s.handlers:
                    if h.type is None or self.handler_matches(h.type, r, env, mod):
                        if h.name:
                            env[h.name] = r.exc
                        self.exec_block(h.body, env, mod)
                        break
                else:
                    self.exec_block(s.finalbody, env, mod)
                    raise
            else:
                self.exec_block(s.orelse, env, mod)
            self.exec_block(s.finalbody, env, mod)
        elif isinstance(s, ast.Delete):
            for t in s.targets:
                if isinstance(t, ast.Subscript):
                    c = self.eval(t.value, env, mod)
                    if isinstance(t.slice, ast.Slice):
                        lo = self.eval(t.slice.lower, env, mod) if t.slice.lower else None
                        hi = self.eval(t.slice.upper, env, mod) if t.slice.upper else None
                        st = self.eval(t.slice.step, env, mod) if t.slice.step else None
                        if not isinstance(c, list) or not all(x is None or (isinstance(x, int) and not isinstance(x, bool)) for x in (lo, hi, st)):
                            raise AnalysisError(f"del of a symbolic slice (line {t.lineno})")
                        del c[slice(lo, hi, st)]
                        continue
                    k = self.eval(t.slice, env, mod)
                    self.del_item(c, k, t)
                elif isinstance(t, ast.Name):
                    env.pop(t.id, None)
                else:
                    raise AnalysisError("del target not in vocabulary")
        elif isinstance(s, (ast.FunctionDef,)):
            env[s.name] = Closure(s, env=env)
        elif isinstance(s, ast.Assert):
            pass
        elif isinstance(s, (ast.Import, ast.ImportFrom, ast.Global, ast.Nonlocal)):
            pass
        else:
            raise AnalysisError(f"statement {type(s).__name__} not in vocabulary (line {s.lineno})")

    def del_item(self, c, k, node):
        if isinstance(c, dict):
            key = _hashable(k)
            if key not in c:
                self.on_raise(Sym("exc", "KeyError"), node)
            del c[key]
        elif isinstance(c, list) and isinstance(k, int):
            del c[k]
        else:
            raise AnalysisError("del on non-container")

    def handler_matches(self, type_expr, raised, env, mod):
        names = []
        for n in ast.walk(type_expr):
            if isinstance(n, ast.Name):
                names.append(n.id)
            elif isinstance(n, ast.Attribute):
                names.append(n.attr)
        return raised.name in names or "Exception" in names or "BaseException" in names

    def assign(self, t, v, env, mod):
        if isinstance(t, ast.Name):
            env[t.id] = v
        elif isinstance(t, (ast.Tuple, ast.List)):
            stars = [i for i, e in enumerate(t.elts) if isinstance(e, ast.Starred)]
            if stars:
                if len(stars) > 1 or not isinstance(v, (list, tuple)):
                    raise AnalysisError("starred assignment outside vocabulary")
                k = stars[0]
                after = len(t.elts) - k - 1
                if len(v) < len(t.elts) - 1:
                    self.on_raise(Sym("exc", "ValueError", "unpack"), t)
                seq = list(v)
                items = seq[:k] + [seq[k:len(seq) - after]] + (seq[len(seq) - after:] if after else [])
                for sub, x in zip(t.elts, items):
                    self.assign(sub.value if isinstance(sub, ast.Starred) else sub, x, env, mod)
                return
            items = self.unpack(v, len(t.elts), t)
            for sub, x in zip(t.elts, items):
                self.assign(sub, x, env, mod)
        elif isinstance(t, ast.Attribute):
            self.store_attr(self.eval(t.value, env, mod), t.attr, v, t)
        elif isinstance(t, ast.Subscript):
            c = self.eval(t.value, env, mod)
            k = self.eval(t.slice, env, mod)
            self.set_item(c, k, v, t)
        else:
            raise AnalysisError(f"assignment target {type(t).__name__} not in vocabulary")

    def store_attr(self, obj, attr, v, node):
        """`obj.attr = v`: through the property setter of the object's class, if it has one."""
        if isinstance(obj, Obj) and obj.cls is not None and attr not in obj.fields:
            st = self.repo.resolve(obj.cls, attr, "setter")
            if st is not None:
                self.call_func(Closure(st, self_obj=obj), [v], {}, node)
                return
            dp = self.class_level_property(obj.cls, attr)
            if dp is not None:
                if dp.fset is None:
                    self.on_raise(Sym("exc", "AttributeError", f"can't set attribute '{attr}'"), node)
                self.call(dp.fset, [obj, v], {}, node, None)
                return
        self.set_attr(obj, attr, v, node)

    def class_level_property(self, cls, attr):
        """The property object a class body binds to `attr` by an expression (`x = make_property(...)`), if any."""
        for k in self.repo.mro(cls):
            if attr in k.attrs and isinstance(k.attrs[attr], ast.Call):
                shared = self.repo.__dict__.setdefault("_class_level_values", {})
                key = (k.name, attr)
                if key not in shared:
                    try:
                        shared[key] = self.eval(k.attrs[attr], {}, k.module)
                    except AnalysisError:
                        return None
                return shared[key] if isinstance(shared[key], DynProp) else None
            if attr in k.attrs or attr in k.methods or attr in k.getters:
                return None
        return None

    def set_item(self, c, k, v, node):
        if isinstance(c, dict):
            c[_hashable(k)] = v
        elif isinstance(c, list) and isinstance(k, int):
            c[k] = v
        else:
            raise AnalysisError(f"item store on {c!r} not in vocabulary")

    def unpack(self, v, n, node):
        if isinstance(v, (list, tuple)):
            if len(v) != n:
                self.on_raise(Sym("exc", "ValueError", "unpack"), node)
            return list(v)
        if v is None:
            self.on_raise(Sym("exc", "TypeError", "cannot unpack non-iterable NoneType"), node)
        raise AnalysisError(f"cannot unpack {v!r} (line {getattr(node, 'lineno', '?')})")

    # ----------------------------------------------------------- expressions
    def eval(self, e, env, mod):
        m = getattr(self, "e_" + type(e).__name__, None)
        if m is None:
            raise AnalysisError(f"expression {type(e).__name__} not in vocabulary (line {getattr(e, 'lineno', '?')})")
        return m(e, env, mod)

    def e_Constant(self, e, env, mod):
        return e.value

    def e_Name(self, e, env, mod):
        if e.id in env:
            v = env[e.id]
            if v is UNSET:
                raise AnalysisError(f"local '{e.id}' read before assignment")
            return v
        if e.id in _BUILTINS:
            return Sym("builtin", e.id)
        return self.global_name(e.id, mod if mod is not None else env.get("__mod__"))

    def e_Attribute(self, e, env, mod):
        base = self.eval(e.value, env, mod)
        return self.attr(base, e.attr, e, mod)

    def attr(self, base, attr, node, mod):
        if base is None:
            self.on_raise(Sym("exc", "AttributeError", f"'NoneType' object has no attribute '{attr}'"), node)
        if isinstance(base, Super):
            mro = self.repo.mro(base.obj.cls) if base.obj.cls is not None else []
            if base.cls in mro:
                for k in mro[mro.index(base.cls) + 1:]:
                    if attr in k.getters:
                        return self.call_func(Closure(k.getters[attr], self_obj=base.obj), [], {}, node)
                    if attr in k.methods:
                        return Closure(k.methods[attr], self_obj=base.obj)
            if attr == "__init__":
                return Closure(ast.parse("lambda *a, **k: None").body[0].value)
            raise AnalysisError(f"super().{attr} not resolvable for {base.obj!r}")
        if isinstance(base, NamedTup):
            if attr in base.names:
                return base[base.names.index(attr)]
            if base.klass is None:
                raise AnalysisError(f"attribute .{attr} on a namedtuple not in vocabulary")
            g = self.repo.resolve(base.klass, attr, "getter")
            if g is not None:
                return self.call_func(Closure(g, self_obj=base), [], {}, node)
            mth = self.repo.resolve(base.klass, attr, "method")
            if mth is not None:
                return Closure(mth, self_obj=base)
            if attr == "_replace":
                return Sym("nt_replace", Ref(base)) if "Ref" in globals() else (_ for _ in ()).throw(AnalysisError("NamedTuple._replace not in vocabulary"))
            raise AnalysisError(f"attribute .{attr} on a {base.klass.name} tuple not in vocabulary")
        if isinstance(base, Obj):
            if attr in base.fields:
                return base.fields[attr]
            if base.cls is not None:
                g = self.repo.resolve(base.cls, attr, "getter")
                if g is not None:
                    return self.call_func(Closure(g, self_obj=base), [], {}, node)
                mth = self.repo.resolve(base.cls, attr, "method")
                if mth is not None:
                    return Closure(mth, self_obj=base)
                # class-level attribute (`x = []` in the class body): ONE value shared by all instances
                for k in self.repo.mro(base.cls):
                    if attr in k.attrs and not isinstance(k.attrs[attr], (ast.FunctionDef, ast.Lambda)):
                        shared = self.repo.__dict__.setdefault("_class_level_values", {})
                        key = (k.name, attr)
                        if key not in shared:
                            try:
                                shared[key] = self.eval(k.attrs[attr], {}, k.module if hasattr(k, "module") else mod)
                            except AnalysisError:
                                break
                        if isinstance(shared[key], DynProp):
                            if shared[key].fget is None:
                                raise AnalysisError(f"property {attr} without getter")
                            return self.call(shared[key].fget, [base], {}, node, mod)
                        return shared[key]
        if isinstance(base, (list, dict, set)) and attr in _CONTAINER_METHODS:
            return Sym("bound", attr, _Box(base))
        if isinstance(base, PropObj):
            f = self.repo.resolve(base.cls, base.name, {"fget": "getter", "fset": "setter"}.get(attr, "?"))
            if f is not None:
                return Closure(f)  # unbound: called with the instance as first argument
            raise AnalysisError(f"property attribute .{attr} not in vocabulary")
        if isinstance(base, Class):
            if attr in base.attrs:
                return Sym("enum", base.name, attr)
            if self.repo.resolve(base, attr, "getter") is not None and self.repo.resolve(base, attr, "method") is None:
                return PropObj(base, attr)  # the property object itself (`Cls.prop.fset(obj, value)`)
            mth = self.repo.resolve(base, attr)
            if mth is not None:
                if getattr(mth, "is_classmethod", False):
                    return Closure(mth, self_obj=base)  # `Cls.create(...)`: the class is the first argument
                return Closure(mth)
        from .loader import Module
        if isinstance(base, Module):
            ent = self.repo.resolve_symbol(base.name, attr)
            if isinstance(ent, Func):
                return Closure(ent)
            if isinstance(ent, ast.AST):
                try:
                    return self.eval(ent, {}, None)
                except AnalysisError:
                    return Sym("ext", attr)
            if ent is not None:
                return ent
        return self.get_attr(base, attr, node, mod)

    def e_Subscript(self, e, env, mod):
        c = self.eval(e.value, env, mod)
        if isinstance(e.slice, ast.Slice):
            lo = self.eval(e.slice.lower, env, mod) if e.slice.lower else None
            hi = self.eval(e.slice.upper, env, mod) if e.slice.upper else None
            st = self.eval(e.slice.step, env, mod) if e.slice.step else None
            if isinstance(c, (list, tuple, str)) and all(x is None or (isinstance(x, int) and not isinstance(x, bool)) for x in (lo, hi, st)):
                return c[slice(lo, hi, st)]
            return self.get_item(c, Sym("slice", lo, hi, st), e)
        k = self.eval(e.slice, env, mod)
        return self.get_item(c, k, e)

    def get_item(self, c, k, node):
        if isinstance(c, (list, tuple)) and isinstance(k, int) and not isinstance(k, bool):
            try:
                return c[k]
            except IndexError:
                self.on_raise(Sym("exc", "IndexError"), node)
        if isinstance(c, dict):
            key = _hashable(k)
            if key in c:
                return c[key]
            self.on_raise(Sym("exc", "KeyError", repr(k)), node)
        if isinstance(c, (list, tuple)) and isinstance(k, bool):
            return c[int(k)]
        return self.sym_item(c, k, node)

    def sym_item(self, c, k, node):
        raise AnalysisError(f"subscript {c!r}[{k!r}] not in vocabulary (line {getattr(node, 'lineno', '?')})")

    def e_Tuple(self, e, env, mod):
        return tuple(self._elts(e.elts, env, mod))

    def e_List(self, e, env, mod):
        return list(self._elts(e.elts, env, mod))

    def e_Set(self, e, env, mod):
        return {_hashable(x) for x in self._elts(e.elts, env, mod)}

    def _elts(self, elts, env, mod):
        out = []
        for x in elts:
            if isinstance(x, ast.Starred):
                out.extend(self.iterate(self.eval(x.value, env, mod), x))
            else:
                out.append(self.eval(x, env, mod))
        return out

    def e_Dict(self, e, env, mod):
        d = {}
        for k, v in zip(e.keys, e.values):
            if k is None:
                d.update(self.eval(v, env, mod))
            else:
                d[_hashable(self.eval(k, env, mod))] = self.eval(v, env, mod)
        return d

    def e_BoolOp(self, e, env, mod):
        is_and = isinstance(e.op, ast.And)
        v = None
        for x in e.values:
            v = self.eval(x, env, mod)
            t = self.truth(v, x)
            if is_and and not t:
                return v
            if not is_and and t:
                return v
        return v

    def e_UnaryOp(self, e, env, mod):
        v = self.eval(e.operand, env, mod)
        if isinstance(e.op, ast.Not):
            return not self.truth(v, e.operand)
        return self.unaryop(e.op, v, e)

    def e_BinOp(self, e, env, mod):
        return self.binop(e.op, self.eval(e.left, env, mod), self.eval(e.right, env, mod), e)

    def e_Compare(self, e, env, mod):
        left = self.eval(e.left, env, mod)
        res = True
        for op, r in zip(e.ops, e.comparators):
            right = self.eval(r, env, mod)
            c = self.compare(op, left, right, e)
            if not isinstance(c, bool):
                if len(e.ops) > 1:
                    c = self.truth(c, e)
                else:
                    return c
            if not c:
                return False
            left = right
        return res

    def e_IfExp(self, e, env, mod):
        if self.truth(self.eval(e.test, env, mod), e.test):
            return self.eval(e.body, env, mod)
        return self.eval(e.orelse, env, mod)

    def e_Lambda(self, e, env, mod):
        return Closure(e, env={**env, "__mod__": mod})

    def e_NamedExpr(self, e, env, mod):
        v = self.eval(e.value, env, mod)
        env[e.target.id] = v
        return v

    def e_JoinedStr(self, e, env, mod):
        parts = []
        for v in e.values:
            if isinstance(v, ast.Constant):
                parts.append(v.value)
            else:
                if v.format_spec is not None or v.conversion not in (-1, None):
                    parts.append(Sym("formatted", self.eval(v.value, env, mod)))
                else:
                    parts.append(self.eval(v.value, env, mod))
        if parts and all(isinstance(p, str) for p in parts):
            return "".join(parts)  # every part is a known string: the string itself (attribute names built from a prefix)
        return Sym("fstr", *[_keep(p) for p in parts])

    def e_Yield(self, e, env, mod):
        if "__yield__" not in env:
            raise AnalysisError("yield outside a generator function")
        env["__yield__"].append(self.eval(e.value, env, mod) if e.value is not None else None)
        return None

    def e_YieldFrom(self, e, env, mod):
        if "__yield__" not in env:
            raise AnalysisError("yield outside a generator function")
        env["__yield__"].extend(self.iterate(self.eval(e.value, env, mod), e))
        return None

    def e_Starred(self, e, env, mod):
        raise AnalysisError("starred expression outside call/literal")

    def _comp(self, gens, env, mod, emit):
        def rec(i, env):
            if i == len(gens):
                emit(env)
                return
            g = gens[i]
            for it in self.iterate(self.eval(g.iter, env, mod), g.iter):
                e2 = dict(env)
                self.assign(g.target, it, e2, mod)
                if all(self.truth(self.eval(c, e2, mod), c) for c in g.ifs):
                    rec(i + 1, e2)
        rec(0, env)

    def e_ListComp(self, e, env, mod):
        out = []
        self._comp(e.generators, env, mod, lambda en: out.append(self.eval(e.elt, en, mod)))
        return out

    e_GeneratorExp = e_ListComp

    def e_SetComp(self, e, env, mod):
        out = set()
        self._comp(e.generators, env, mod, lambda en: out.add(_hashable(self.eval(e.elt, en, mod))))
        return out

    def e_DictComp(self, e, env, mod):
        out = {}
        self._comp(
            e.generators, env, mod,
            lambda en: out.__setitem__(_hashable(self.eval(e.key, en, mod)), self.eval(e.value, en, mod)),
        )
        return out

    def e_Call(self, e, env, mod):
        if isinstance(e.func, ast.Name) and e.func.id == "super" and not e.args and "super" not in env:
            if env.get("__defcls__") is None or env.get("__selfobj__") is None:
                raise AnalysisError("super() outside a method")
            return Super(env["__selfobj__"], env["__defcls__"])
        if isinstance(e.func, ast.Name) and e.func.id == "super" and len(e.args) == 2 and "super" not in env:
            # the explicit form super(Cls, self)
            k, o = self.eval(e.args[0], env, mod), self.eval(e.args[1], env, mod)
            if isinstance(k, Class) and isinstance(o, Obj):
                return Super(o, k)
            raise AnalysisError("super(cls, obj) with something else than a class of the repository and an object")
        fv = self.eval(e.func, env, mod)
        args = []
        for a in e.args:
            if isinstance(a, ast.Starred):
                args.extend(self.iterate(self.eval(a.value, env, mod), a))
            else:
                args.append(self.eval(a, env, mod))
        kwargs = {}
        for k in e.keywords:
            if k.arg is None:
                kwargs.update(self.eval(k.value, env, mod))
            else:
                kwargs[k.arg] = self.eval(k.value, env, mod)
        return self.call(fv, args, kwargs, e, mod)

    def call(self, fv, args, kwargs, node, mod):
        if isinstance(fv, Partial):
            # functools.partial: the frozen arguments come first, later keywords override frozen ones
            return self.call(fv.func, list(fv.args) + list(args), {**fv.kwargs, **kwargs}, node, mod)
        r = self.call_hook(fv, args, kwargs, node, mod)
        if r is not NotImplemented:
            return r
        if isinstance(fv, Closure):
            return self.call_func(fv, args, kwargs, node)
        if isinstance(fv, Sym) and fv.op == "builtin":
            return self.builtin(fv.args[0], args, kwargs, node)
        if isinstance(fv, Sym) and fv.op == "bound":
            if fv.args[0] == "sort" and isinstance(fv.args[1].v, list):
                lst = fv.args[1].v
                lst[:] = self.sort(list(lst), kwargs.get("key"), node, kwargs.get("reverse", False))
                return None
            return self.container_method(fv.args[1].v, fv.args[0], args, node)
        if isinstance(fv, Class):
            return self.construct(fv, args, kwargs, node)
        if isinstance(fv, Obj) and fv.cls is not None:
            m = self.repo.resolve(fv.cls, "__call__", "method")
            if m is not None:
                return self.call_func(Closure(m, self_obj=fv), list(args), dict(kwargs), node)
        raise AnalysisError(f"call of {fv!r} not in vocabulary (line {getattr(node, 'lineno', '?')})")

    def construct(self, cls, args, kwargs, node):
        if self.repo.is_subclass(cls, "Exception") or cls.name.startswith("Finam") or cls.name.endswith("Error"):
            return Sym("exc", cls.name, *[a if _plain(a) or isinstance(a, Sym) else repr(a) for a in args])
        if self.constructs_privately(cls):
            record = self.record_kind(cls)
            init = self.repo.resolve(cls, "__init__", "method")
            if record and init is None:
                # dataclass / NamedTuple: the annotated class-level names are the constructor parameters, in order
                names = [n for k in reversed(list(self.repo.mro(cls))) for n, _d in k.ann_fields]
                defaults = {n: d for k in reversed(list(self.repo.mro(cls))) for n, d in k.ann_fields if d is not None}
                if len(args) > len(names) or any(k not in names for k in kwargs):
                    raise AnalysisError(f"construction of {cls.name}: arguments do not match its fields {names}")
                bound = dict(zip(names, args))
                bound.update(kwargs)
                for n in names:
                    if n not in bound:
                        if n not in defaults:
                            self.on_raise(Sym("exc", "TypeError"), node)
                        bound[n] = self.eval(defaults[n], {}, cls.module)
                if record == "namedtuple":
                    return NamedTup(cls, names, [bound[n] for n in names])
                o = Obj(cls=cls, label=cls.name)
                o.fields.update(bound)
                post = self.repo.resolve(cls, "__post_init__", "method")
                if post is not None:
                    self.call_func(Closure(post, self_obj=o), [], {}, node)
                return o
            o = Obj(cls=cls, label=cls.name)
            if init is not None:
                self.call_func(Closure(init, self_obj=o), list(args), dict(kwargs), node)
            elif args or kwargs:
                raise AnalysisError(f"construction of {cls.name} with arguments but without __init__")
            return o
        raise AnalysisError(f"construction of {cls.name} not in vocabulary")

    def record_kind(self, cls):
        if any(isinstance(b, str) and b.split(".")[-1] == "NamedTuple" for k in self.repo.mro(cls) for b in k.bases):
            return "namedtuple"
        if any(d.split("(")[0].split(".")[-1] == "dataclass" for d in getattr(cls, "decorators", [])):
            return "dataclass"
        return None

    def constructs_privately(self, cls):
        """Small private helper classes (leading underscore, no external base) are built by
        running their own constructor; everything else stays with the rule's vocabulary."""
        if not cls.name.startswith("_"):
            return False
        return all(not isinstance(b, str) or b.split(".")[-1] in ("object", "NamedTuple") for k in self.repo.mro(cls) for b in k.bases)

    def builtin(self, name, args, kwargs, node):
        if name == "len":
            if isinstance(args[0], (list, tuple, dict, set, str, frozenset)):
                return len(args[0])
            return self.sym_len(args[0], node)
        if name == "next":
            # generator expressions are evaluated eagerly into lists: next(gen[, default]) is its first element
            seq = args[0]
            if isinstance(seq, Iter):
                try:
                    return next(seq)
                except StopIteration:
                    if len(args) > 1:
                        return args[1]
                    self.on_raise(Sym("exc", "StopIteration"), node)
            if isinstance(seq, (list, tuple)):
                if seq:
                    return seq[0]
                if len(args) > 1:
                    return args[1]
                self.on_raise(Sym("exc", "StopIteration"), node)
            if isinstance(seq, Count):
                v = seq.start  # next(counter): the counter moves on (iteration continues from there)
                seq.start += seq.step
                return v
            raise AnalysisError("next() on a non-list iterator")
        if name == "property":
            return DynProp(args[0] if args else kwargs.get("fget"), args[1] if len(args) > 1 else kwargs.get("fset"))
        if name == "iter":
            if len(args) != 1:
                raise AnalysisError("iter(callable, sentinel) not in vocabulary")
            return args[0] if isinstance(args[0], Iter) else Iter(self.iterate(args[0], node))
        if name in ("int", "float", "abs"):
            a = args[0] if args else 0
            if isinstance(a, bool) or (isinstance(a, (int, float)) and not isinstance(a, bool)):
                return {"int": int, "float": float, "abs": abs}[name](a)
            return Sym(name, a)
        if name == "isinstance":
            return self.isinstance(args[0], args[1], node)
        if name == "enumerate":
            start = args[1] if len(args) > 1 else kwargs.get("start", 0)
            return [(i + start, x) for i, x in enumerate(self.iterate(args[0], node))]
        if name == "reversed":
            return list(reversed(self.iterate(args[0], node)))
        if name == "range":
            if all(isinstance(a, int) for a in args):
                return list(range(*args))
            raise AnalysisError("symbolic range")
        if name in ("list", "tuple"):
            seq = self.iterate(args[0], node) if args else []
            return list(seq) if name == "list" else tuple(seq)
        if name == "set":
            return {_hashable(x) for x in (self.iterate(args[0], node) if args else [])}
        if name == "dict":
            if args and isinstance(args[0], dict):
                return dict(args[0], **kwargs)
            if not args:
                return dict(kwargs)
            return {_hashable(k): v for k, v in self.iterate(args[0], node)}
        if name == "zip":
            return [tuple(x) for x in zip(*[self.iterate(a, node) for a in args])]
        if name == "any":
            return any(self.truth(x, node) for x in self.iterate(args[0], node))
        if name == "all":
            return all(self.truth(x, node) for x in self.iterate(args[0], node))
        if name in ("min", "max"):
            seq = self.iterate(args[0], node) if len(args) == 1 else list(args)
            if not seq:
                if "default" in kwargs:
                    return kwargs["default"]
                self.on_raise(Sym("exc", "ValueError", f"{name}() arg is an empty sequence"), node)
            if kwargs.get("key") is not None:
                keys = [self.call(kwargs["key"], [x], {}, node, None) for x in seq]
                best = 0
                for i in range(1, len(seq)):
                    c = self.compare(ast.Lt() if name == "min" else ast.Gt(), keys[i], keys[best], node)
                    if self.truth(c, node):
                        best = i
                return seq[best]
            return self.minmax(name, seq, node)
        if name == "bool":
            return self.truth(args[0], node)
        if name == "str":
            return args[0] if isinstance(args[0], str) else Sym("str", args[0])
        if name == "id":
            return Sym("id", args[0] if isinstance(args[0], Sym) else id(args[0]))
        if name == "sorted":
            return self.sort(self.iterate(args[0], node), kwargs.get("key"), node, kwargs.get("reverse", False))
        if name == "map":
            return [self.call(args[0], [x], {}, node, None) for x in self.iterate(args[1], node)]
        if name == "print":
            return None
        if name == "hasattr":
            return isinstance(args[0], Obj) and (args[1] in args[0].fields)
        if name == "getattr":
            if len(args) > 2:
                try:
                    return self.attr(args[0], args[1], node, None)
                except Raised as r:
                    if r.name == "AttributeError":
                        return args[2]
                    raise
                except AnalysisError:
                    if isinstance(args[0], Obj) and args[1] not in args[0].fields:
                        return args[2]
                    raise
            return self.attr(args[0], args[1], node, None)
        if name == "setattr":
            if not isinstance(args[1], str):
                raise AnalysisError("setattr with a symbolic attribute name")
            self.store_attr(args[0], args[1], args[2], node)
            return None
        if name == "callable":
            return isinstance(args[0], (Closure, Class)) or (isinstance(args[0], Sym) and args[0].op in ("builtin", "bound", "ext"))
        if name == "frozenset":
            return frozenset(_hashable(x) for x in (self.iterate(args[0], node) if args else []))
        if name == "sum":
            seq = self.iterate(args[0], node)
            tot = args[1] if len(args) > 1 else 0
            for x in seq:
                tot = self.binop(ast.Add(), tot, x, node)
            return tot
        raise AnalysisError(f"builtin {name} not in vocabulary")

    def sort(self, seq, key, node, reverse=False):
        """Stable sort; keys are compared with the interpreter's own `<` (plain values natively,
        symbolic times through the rule's order oracle; an undecidable pair raises Undecided)."""
        if reverse not in (True, False):
            raise AnalysisError("sort(reverse=<symbolic>)")
        seq = list(seq)
        if key is None and all(_plain(x) and x is not None for x in seq):
            try:
                return sorted(seq, reverse=reverse)
            except TypeError:
                pass
        keys = [x if key is None else self.call(key, [x], {}, node, None) for x in seq]
        idx = list(range(len(seq)))
        out = []
        for i in idx:  # insertion sort: stable, O(n^2) on the tiny lists of the abstract scenarios
            pos = len(out)
            while pos > 0:
                a, b = keys[i], keys[out[pos - 1]]
                lt = self.compare(ast.Gt() if reverse else ast.Lt(), a, b, node)
                if not self.truth(lt, node):
                    break
                pos -= 1
            out.insert(pos, i)
        return [seq[i] for i in out]

    def sym_len(self, v, node):
        raise AnalysisError(f"len of {v!r}")

    def minmax(self, name, seq, node):
        if all(_plain(x) for x in seq):
            return (min if name == "min" else max)(seq)
        best = seq[0]
        for x in seq[1:]:
            c = self.compare(ast.Lt() if name == "min" else ast.Gt(), x, best, node)
            if self.truth(c, node):
                best = x
        return best

    def isinstance(self, v, klass, node):
        raise Undecided(f"isinstance({v!r}, {klass!r})", node)

    def container_method(self, c, name, args, node):
        if isinstance(c, list):
            if name == "append":
                c.append(args[0])
                return None
            if name == "pop":
                if not c:
                    self.on_raise(Sym("exc", "IndexError"), node)
                return c.pop(*args)
            if name == "clear":
                c.clear()
                return None
            if name == "extend":
                c.extend(self.iterate(args[0], node))
                return None
            if name == "insert":
                c.insert(args[0], args[1])
                return None
            if name == "sort":
                raise AnalysisError("list.sort on symbolic list")
            if name == "reverse":
                c.reverse()
                return None
            if name == "remove":
                for i, x in enumerate(c):
                    if x is args[0] or x == args[0]:
                        del c[i]
                        return None
                self.on_raise(Sym("exc", "ValueError"), node)
            if name == "count":
                return sum(1 for x in c if x is args[0] or x == args[0])
            if name == "popleft" and isinstance(c, Deque):
                if not c:
                    self.on_raise(Sym("exc", "IndexError"), node)
                return c.pop(0)
            if name == "appendleft" and isinstance(c, Deque):
                c.insert(0, args[0])
                return None
            if name == "copy":
                return type(c)(c)
            if name == "index":
                for i, x in enumerate(c):
                    if x is args[0] or x == args[0]:
                        return i
                self.on_raise(Sym("exc", "ValueError"), node)
        if isinstance(c, dict):
            if name == "items":
                return list(c.items())
            if name == "keys":
                return list(c.keys())
            if name == "values":
                return list(c.values())
            if name == "get":
                return c.get(_hashable(args[0]), args[1] if len(args) > 1 else None)
            if name == "pop":
                k = _hashable(args[0])
                if k in c:
                    return c.pop(k)
                if len(args) > 1:
                    return args[1]
                self.on_raise(Sym("exc", "KeyError"), node)
            if name == "update":
                for a in args:
                    if isinstance(a, dict):
                        c.update(a)
                    else:
                        for kv in self.iterate(a, node):
                            k2, v2 = kv
                            c[_hashable(k2)] = v2
                return None
            if name == "setdefault":
                return c.setdefault(_hashable(args[0]), args[1] if len(args) > 1 else None)
            if name == "clear":
                c.clear()
                return None
            if name == "copy":
                return dict(c)
        if isinstance(c, set):
            if name == "update":
                for a in args:
                    for x in self.iterate(a, node):
                        c.add(_hashable(x))
                return None
            if name in ("discard", "remove"):
                hit = [y for y in c if y is args[0] or y == args[0]]
                if not hit and name == "remove":
                    self.on_raise(Sym("exc", "KeyError"), node)
                for y in hit:
                    c.discard(y)
                return None
            if name in ("union", "difference", "intersection", "copy", "issubset", "issuperset", "isdisjoint"):
                other = set(_hashable(x) for a in args for x in self.iterate(a, node))
                return {"union": lambda: set(c) | other, "difference": lambda: set(c) - other, "intersection": lambda: set(c) & other,
                        "copy": lambda: set(c), "issubset": lambda: set(c) <= other, "issuperset": lambda: set(c) >= other,
                        "isdisjoint": lambda: not (set(c) & other)}[name]()
            if name == "clear":
                c.clear()
                return None
            if name == "add":
                c.add(_hashable(args[0]))
                return None
            if name == "pop":
                return c.pop()
        if not hasattr(type(c), name):
            self.on_raise(Sym("exc", "AttributeError", f"'{type(c).__name__}' object has no attribute '{name}'"), node)
        raise AnalysisError(f"container method {name} not in vocabulary")


class Count:
    """itertools.count(start): iterated lazily up to the interpreter's loop bound."""

    def __init__(self, start=0, step=1):
        self.start, self.step = start, step

    def gen(self, bound):
        i = self.start
        for _ in range(bound):
            yield i
            i += self.step
        raise AnalysisError("loop bound exceeded while iterating itertools.count")


class Deque(list):
    """collections.deque without maxlen: a list with popleft / appendleft."""


class _Box:
    """Identity wrapper so mutable containers can ride inside a Sym."""

    __slots__ = ("v",)

    def __init__(self, v):
        self.v = v

    def __eq__(self, o):
        return isinstance(o, _Box) and o.v is self.v

    def __hash__(self):
        return id(self.v)


def _keep(p):
    if isinstance(p, (str, Sym)) or _plain(p):
        return p
    if isinstance(p, (list, tuple)):
        return tuple(_keep(x) for x in p)
    return repr(p)


def _is_generator(fn):
    stack = list(getattr(fn, "body", []))
    while stack:
        n = stack.pop()
        if isinstance(n, (ast.Yield, ast.YieldFrom)):
            return True
        if isinstance(n, (ast.FunctionDef, ast.AsyncFunctionDef, ast.Lambda, ast.ClassDef)):
            continue
        stack.extend(ast.iter_child_nodes(n))
    return False


def _all_plain(seq):
    return all(_plain(x) or (isinstance(x, (tuple, list)) and _all_plain(x)) for x in seq)


def _plain(v):
    return v is None or isinstance(v, (bool, int, float, str))


def _hashable(k):
    if isinstance(k, list):
        return tuple(k)
    return k


def _load(t):
    import copy

    t2 = copy.copy(t)
    t2.ctx = ast.Load()
    return t2


_BIN = {
    ast.Add: lambda a, b: a + b,
    ast.Sub: lambda a, b: a - b,
    ast.Mult: lambda a, b: a * b,
    ast.Div: lambda a, b: a / b,
    ast.FloorDiv: lambda a, b: a // b,
    ast.Mod: lambda a, b: a % b,
    ast.BitOr: lambda a, b: a | b,
    ast.BitAnd: lambda a, b: a & b,
    ast.BitXor: lambda a, b: a ^ b,
    ast.Pow: lambda a, b: a ** b,
}
_BINSYM = {ast.Add: "add", ast.Sub: "sub", ast.Mult: "mul", ast.Div: "div"}
_SINGLETON_OPS = {"enum", "nomask"}
_BUILTINS = {
    "len", "isinstance", "enumerate", "reversed", "range", "list", "tuple", "set", "dict",
    "zip", "any", "all", "min", "max", "bool", "str", "id", "sorted", "map", "print",
    "hasattr", "getattr", "setattr", "next", "int", "float", "abs", "iter", "callable", "frozenset", "sum", "round", "type", "property",
}
_CONTAINER_METHODS = {
    "append", "pop", "clear", "extend", "insert", "sort", "copy", "index", "items", "keys",
    "values", "get", "update", "setdefault", "add", "reverse", "remove", "count", "popleft", "appendleft",
    "discard", "union", "difference", "intersection", "issubset", "issuperset", "isdisjoint",
}
